/* native replay of counterexamples for msg_ring_buffer.c against the real, un-injected source */
#include "vg_native.h"
#include "jls/msg_ring_buffer.h"

static int r_mrb_alloc(void) {
    uint32_t buf_size = (uint32_t) vg_in_u64("buf_size", 64);
    uint32_t head = (uint32_t) vg_in_u64("head", 0);
    uint32_t tail = (uint32_t) vg_in_u64("tail", 0);
    uint32_t count = (uint32_t) vg_in_u64("count", 0);
    uint32_t size = (uint32_t) vg_in_u64("size", 0);
    uint8_t * buf = malloc(buf_size);       /* ASan red zones detect any access outside the queue memory */
    memset(buf, 0, buf_size);
    struct jls_mrb_s s = {.head = head, .tail = tail, .count = count, .buf = buf, .buf_size = buf_size};
    printf("replay jls_mrb_alloc: buf_size=%u head=%u tail=%u count=%u size=%u\n", buf_size, head, tail, count, size);
    uint8_t * p = jls_mrb_alloc(&s, size);
    if (p) {
        VG_CHECK(p >= buf + 4 && (uint64_t) (p - buf) + size <= buf_size, "region [%ld,%ld) leaves the %u-byte buffer",
                 (long) (p - buf), (long) (p - buf) + size, buf_size);
        memset(p, 0xa5, size);   /* the caller fills the message */
        VG_CHECK(s.head != s.tail, "queue looks empty after a successful allocation (head==tail==%u)", s.head);
        VG_CHECK(s.head + 4 <= buf_size, "head=%u leaves no room for a wrap marker in a %u-byte buffer", s.head, buf_size);
    }
    free(buf);
    return 0;
}

int main(void) { return VG_REPLAY_ENTRY(); }
