#include "jls.h"
#include "jls/writer.h"
#include "jls/reader.h"
#include "jls/raw.h"
#include "jls/format.h"
#include <stdio.h>
#include <stdlib.h>
#include <string.h>
#include <unistd.h>
/* u8 signal whose blocks (after the first) are constant and therefore omitted; the payload of the level-1 SUMMARY chunk is damaged;
 * the same window inside an omitted block is read twice */
int main(void){ const char*path="/tmp/p1/sumcrc.jls"; unlink(path);
  struct jls_wr_s*wr; if(jls_wr_open(&wr,path)) return 2;
  struct jls_source_def_s src={.source_id=1,.name="s",.vendor="v",.model="m",.version="1",.serial_number="1"}; jls_wr_source_def(wr,&src);
  struct jls_signal_def_s sig={.signal_id=5,.source_id=1,.signal_type=JLS_SIGNAL_TYPE_FSR,.data_type=JLS_DATATYPE_U8,.sample_rate=1000,.samples_per_data=64,.sample_decimate_factor=32,.entries_per_summary=64,.summary_decimate_factor=4,.name="x",.units="u"};
  if(jls_wr_signal_def(wr,&sig)) return 2;
  static uint8_t d[6400]; memset(d,7,sizeof(d)); memset(d+2048,9,2048); memset(d+4096,11,2304); for(int i=0;i<64;i++) d[i]=i;
  if(jls_wr_fsr(wr,5,0,d,6400)) return 2; jls_wr_close(wr);
  /* locate the level-1 FSR summary chunk */
  struct jls_raw_s*raw; if(jls_raw_open(&raw,path,"r")) return 2; struct jls_chunk_header_s h; int64_t off=0, soff=0; int32_t rc;
  while(0==(rc=jls_raw_rd_header(raw,&h))){ off=jls_raw_chunk_tell(raw); if(h.tag==JLS_TAG_TRACK_FSR_SUMMARY && ((h.chunk_meta>>12)&0xf)==1 && !soff){ soff=off; printf("summary chunk at %ld payload %u\n",(long)off,h.payload_length);} if(jls_raw_chunk_next(raw)) break; }
  jls_raw_close(raw); if(!soff){printf("no summary chunk\n");return 2;}
  FILE*f=fopen(path,"r+b"); fseek(f,soff+32+24,SEEK_SET); int c=fgetc(f); fseek(f,soff+32+24,SEEK_SET); fputc(c^0x40,f); fclose(f);
  struct jls_rd_s*rd; rc=jls_rd_open(&rd,path); printf("open rc=%d\n",rc); if(rc) return 0;
  uint8_t o[16]; 
  for(int k=0;k<4;k++){ memset(o,0xEE,sizeof(o)); rc=jls_rd_fsr(rd,5,k==0?2048+200:200,o,16); printf("read %d: rc=%d data:",k,rc); for(int i=0;i<16;i++)printf(" %u",o[i]); printf("\n"); }
  jls_rd_close(rd); return 0; }
