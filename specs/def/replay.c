/* native replay of counterexamples for the signal-definition units against the real src/core.c */
#include "vg_native.h"
#include "jls/core.h"
#include "jls/format.h"

static int r_def_align(void) {
    struct jls_signal_def_s d;
    memset(&d, 0, sizeof(d));
    d.signal_id = 1; d.source_id = 1; d.signal_type = JLS_SIGNAL_TYPE_FSR;
    d.data_type = (uint32_t) vg_in_u64("data_type", JLS_DATATYPE_F32);
    d.samples_per_data = (uint32_t) vg_in_u64("spd", 0);
    d.sample_decimate_factor = (uint32_t) vg_in_u64("sdf", 0);
    d.entries_per_summary = (uint32_t) vg_in_u64("eps", 0);
    d.summary_decimate_factor = (uint32_t) vg_in_u64("sdf2", 0);
    printf("replay signal_def: data_type=0x%x spd=%u sdf=%u eps=%u sdf2=%u\n", d.data_type, d.samples_per_data,
           d.sample_decimate_factor, d.entries_per_summary, d.summary_decimate_factor);
    if (jls_core_signal_def_validate(&d)) { printf("rejected by validate\n"); return 0; }
    struct jls_signal_def_s in = d;
    int32_t rc = jls_core_signal_def_align(&d);
    if (rc) { printf("rejected by align rc=%d\n", rc); return 0; }
    uint32_t bits = (d.data_type >> 8) & 0xff;
    uint32_t sdf = d.sample_decimate_factor, spd = d.samples_per_data, eps = d.entries_per_summary, sdf2 = d.summary_decimate_factor;
    printf("normalised: spd=%u sdf=%u eps=%u sdf2=%u\n", spd, sdf, eps, sdf2);
    VG_CHECK(sdf >= 10 && spd >= 10 && eps >= 10 && sdf2 >= 10, "a factor is below its minimum");
    VG_CHECK(sdf % (256u / bits) == 0, "sample_decimate_factor %u is not a multiple of %u samples", sdf, 256u / bits);
    VG_CHECK(spd % sdf == 0 && spd >= sdf, "samples_per_data %u is not a whole number of summary entries (%u)", spd, sdf);
    VG_CHECK(eps % (spd / sdf) == 0, "entries_per_summary %u is not a whole number of blocks' entries (%u)", eps, spd / sdf);
    VG_CHECK(eps % sdf2 == 0, "entries_per_summary %u is not a whole number of next-level groups (%u)", eps, sdf2);
    struct jls_signal_def_s again = d;
    jls_core_signal_def_align(&again);
    VG_CHECK(again.samples_per_data == spd && again.sample_decimate_factor == sdf && again.entries_per_summary == eps
             && again.summary_decimate_factor == sdf2, "normalising the normalised parameters changed them");
    (void) in;
    return 0;
}

int main(void) { return VG_REPLAY_ENTRY(); }
