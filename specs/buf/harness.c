/* harnesses for buffer.c -- included at the end of the injected TU */
#include "vg.h"
size_t vg_o, vg_k, vg_len0, vg_cur0, vg_end0, vg_alloc0, vg_slen;
uint8_t vg_byte0;

/* an arbitrary well-formed buffer, built explicitly (cursor anywhere, end anywhere behind it) */
static struct jls_buf_s * vg_mk_buf(_Bool writing) {
    struct jls_buf_s * b = malloc(sizeof(*b));
    __CPROVER_assume(b != NULL);
    size_t alloc, co, eo;
    __CPROVER_assume(alloc >= 16 && alloc <= VG_BUF_MAX);
    b->start = malloc(alloc);
    __CPROVER_assume(b->start != NULL);
    __CPROVER_assume(co <= eo && eo <= alloc);
    if (writing) { __CPROVER_assume(co == eo); }
    b->cur = b->start + co;
    b->end = b->start + eo;
    b->length = eo;
    b->alloc_size = alloc;
    b->strings_head = NULL;
    b->strings_tail = NULL;
    return b;
}

void h_buf_realloc(void) {
    struct jls_buf_s * b = vg_mk_buf(0);
    size_t size;
    int32_t rc = jls_buf_realloc(b, size);
    VG_REACH(realloc_returns);
    if (rc == 0 && size > 4 * vg_len0 && size > (1u << 21)) { VG_REACH(realloc_grew); }
    if (rc != 0) { VG_REACH(realloc_failed); }
}

void h_buf_wr_u8(void) {
    struct jls_buf_s * b = vg_mk_buf(1);
    uint8_t v;
    int32_t rc = jls_buf_wr_u8(b, v);
    VG_REACH(wr_u8_returns);
    if (rc == 0) { VG_REACH(wr_u8_ok); } else { VG_REACH(wr_u8_fail); }
}

void h_buf_wr_u16(void) {
    struct jls_buf_s * b = vg_mk_buf(1);
    uint16_t v;
    int32_t rc = jls_buf_wr_u16(b, v);
    VG_REACH(wr_u16_returns);
    if (rc == 0) { VG_REACH(wr_u16_ok); } else { VG_REACH(wr_u16_fail); }
}

void h_buf_wr_u32(void) {
    struct jls_buf_s * b = vg_mk_buf(1);
    uint32_t v;
    int32_t rc = jls_buf_wr_u32(b, v);
    VG_REACH(wr_u32_returns);
    if (rc == 0) { VG_REACH(wr_u32_ok); } else { VG_REACH(wr_u32_fail); }
}

void h_buf_wr_i64(void) {
    struct jls_buf_s * b = vg_mk_buf(1);
    int64_t v;
    int32_t rc = jls_buf_wr_i64(b, v);
    VG_REACH(wr_i64_returns);
    if (rc == 0) { VG_REACH(wr_i64_ok); } else { VG_REACH(wr_i64_fail); }
}

void h_buf_wr_f32(void) {
    struct jls_buf_s * b = vg_mk_buf(1);
    float v;
    int32_t rc = jls_buf_wr_f32(b, v);
    VG_REACH(wr_f32_returns);
    if (rc == 0) { VG_REACH(wr_f32_ok); } else { VG_REACH(wr_f32_fail); }
}

void h_buf_wr_zero(void) {
    struct jls_buf_s * b = vg_mk_buf(1);
    uint32_t count;
    int32_t rc = jls_buf_wr_zero(b, count);
    VG_REACH(wr_zero_returns);
    if (rc == 0 && count > 100) { VG_REACH(wr_zero_ok); }
}
void h_buf_rd_skip(void) {
    struct jls_buf_s * b = vg_mk_buf(0);
    size_t count;
    int32_t rc = jls_buf_rd_skip(b, count);
    VG_REACH(rd_skip_returns);
    if (rc == 0 && count > 3) { VG_REACH(rd_skip_ok); } else if (rc) { VG_REACH(rd_skip_empty); }
}

void h_buf_rd_u8(void) {
    struct jls_buf_s * b = vg_mk_buf(0);
    uint8_t * v;
    int32_t rc = jls_buf_rd_u8(b, v);
    VG_REACH(rd_u8_returns);
    if (rc == 0) { VG_REACH(rd_u8_ok); } else { VG_REACH(rd_u8_empty); }
}

void h_buf_rd_u16(void) {
    struct jls_buf_s * b = vg_mk_buf(0);
    uint16_t * v;
    int32_t rc = jls_buf_rd_u16(b, v);
    VG_REACH(rd_u16_returns);
    if (rc == 0) { VG_REACH(rd_u16_ok); } else { VG_REACH(rd_u16_empty); }
}

void h_buf_rd_u32(void) {
    struct jls_buf_s * b = vg_mk_buf(0);
    uint32_t * v;
    int32_t rc = jls_buf_rd_u32(b, v);
    VG_REACH(rd_u32_returns);
    if (rc == 0) { VG_REACH(rd_u32_ok); } else { VG_REACH(rd_u32_empty); }
}

void h_buf_wr_bin(void) {
    struct jls_buf_s * b = vg_mk_buf(1);
    uint32_t n;
    uint8_t * d = malloc(n);
    __CPROVER_assume(n == 0 || d != NULL);
    int32_t rc = jls_buf_wr_bin(b, d, n);
    VG_REACH(wr_bin_returns);
    if (rc == 0 && n > 2000000) { VG_REACH(wr_bin_grew); }
}

void h_buf_wr_str(void) {
    struct jls_buf_s * b = vg_mk_buf(1);
    size_t sz; __CPROVER_assume(sz >= 1 && sz <= (1u << 20));
    char * s = malloc(sz);
    _Bool absent;
    if (absent) { s = NULL; } else { __CPROVER_assume(s != NULL); }
    int32_t rc = jls_buf_wr_str(b, s);
    VG_REACH(wr_str_returns);
    if (rc == 0 && vg_slen > 100) { VG_REACH(wr_str_long); }
    if (rc == 0 && s == NULL) { VG_REACH(wr_str_absent); }
}
