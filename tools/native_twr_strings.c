#include "jls/threaded_writer.h"
#include "jls/reader.h"
#include "jls/format.h"
#include <stdio.h>
#include <string.h>
static char got_anno[64]; static char got_ud[64]; static int n_anno, n_ud;
static int32_t acb(void * u, const struct jls_annotation_s * a) { (void) u; if (a->storage_type == JLS_STORAGE_TYPE_STRING) { strncpy(got_anno, (const char *) a->data, 63); } n_anno++; return 0; }
static int32_t ucb(void * u, uint16_t meta, enum jls_storage_type_e st, uint8_t * d, uint32_t sz) { (void) u; (void) meta; if (st == JLS_STORAGE_TYPE_STRING) { strncpy(got_ud, (const char *) d, sz < 63 ? sz : 63); } n_ud++; return 0; }
int main(void) {
    struct jls_twr_s * wr; if (jls_twr_open(&wr, "/tmp/p1/f27.jls")) return 2;
    struct jls_source_def_s src = {.source_id = 1, .name="s", .vendor="v", .model="m", .version="1", .serial_number="1"};
    jls_twr_source_def(wr, &src);
    struct jls_signal_def_s sig = {.signal_id = 1, .source_id = 1, .signal_type = JLS_SIGNAL_TYPE_FSR, .data_type = JLS_DATATYPE_F32, .sample_rate = 1000, .name = "x", .units = "V"};
    jls_twr_signal_def(wr, &sig);
    /* documented use: data_size is 0 for string storage */
    int rc1 = jls_twr_user_data(wr, 5, JLS_STORAGE_TYPE_STRING, (const uint8_t *) "hello user data", 0);
    int rc2 = jls_twr_annotation(wr, 1, 10, 1.0f, JLS_ANNOTATION_TYPE_TEXT, 0, JLS_STORAGE_TYPE_STRING, (const uint8_t *) "hello annotation", 0);
    jls_twr_close(wr);
    struct jls_rd_s * rd; if (jls_rd_open(&rd, "/tmp/p1/f27.jls")) return 3;
    jls_rd_user_data(rd, ucb, NULL); jls_rd_annotations(rd, 1, 0, acb, NULL);
    jls_rd_close(rd);
    printf("rc=%d,%d user_data[%d]='%s' annotation[%d]='%s'\n", rc1, rc2, n_ud, got_ud, n_anno, got_anno);
    return (0 == strcmp(got_ud, "hello user data") && 0 == strcmp(got_anno, "hello annotation")) ? 0 : 1;
}
