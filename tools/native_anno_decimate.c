#include "jls/writer.h"
#include "jls/format.h"
#include <stdio.h>
#include <stdlib.h>
int main(int argc, char**argv) {
    unsigned df = argc > 1 ? atoi(argv[1]) : 1; unsigned n = argc > 2 ? atoi(argv[2]) : 3;
    struct jls_wr_s * wr;
    if (jls_wr_open(&wr, "/tmp/p1/f21.jls")) return 2;
    struct jls_source_def_s src = {.source_id = 1, .name="s", .vendor="v", .model="m", .version="1", .serial_number="1"};
    jls_wr_source_def(wr, &src);
    struct jls_signal_def_s sig = {.signal_id = 1, .source_id = 1, .signal_type = JLS_SIGNAL_TYPE_FSR, .data_type = JLS_DATATYPE_F32,
        .sample_rate = 1000, .annotation_decimate_factor = df, .utc_decimate_factor = df, .name = "x", .units = "V"};
    int rc = jls_wr_signal_def(wr, &sig);
    printf("signal_def rc=%d\n", rc);
    unsigned fails = 0; int first = -1;
    for (unsigned i = 0; i < n; ++i) {
        rc = jls_wr_annotation(wr, 1, i, 1.0f, JLS_ANNOTATION_TYPE_TEXT, 0, JLS_STORAGE_TYPE_STRING, (const uint8_t*)"hi", 3);
        if (rc) { if (first < 0) first = i; fails++; }
    }
    printf("df=%u n=%u failed=%u first_failure_at=%d\n", df, n, fails, first);
    rc = jls_wr_close(wr); printf("close rc=%d\n", rc);
    return fails ? 1 : 0;
}
