/* preamble for src/tmap.c (C12 exact part, C10) */
#ifndef VG_TMAP_PRE_H
#define VG_TMAP_PRE_H
#include <stdint.h>
#include <stddef.h>
#ifndef VG_TMAP_MAX
#define VG_TMAP_MAX (1ull << 24)          /* stated bound on the number of UTC entries (object size) */
#endif
#define VG_TMAP_VAL (1ll << 61)           /* stated bound on sample ids / timestamps: differences do not overflow int64 */
#define VG_TMAP_SPAN (1ll << 50)          /* stated bound on the difference between neighbouring entries: exact in double */
extern size_t vg_i;                        /* skolem witness: an arbitrary entry index */
extern size_t vg_seg;                      /* ghost: the segment interp_i64 selected */
#endif
