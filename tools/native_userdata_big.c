#include "jls/writer.h"
#include "jls/reader.h"
#include "jls/format.h"
#include <stdio.h>
#include <stdlib.h>
#include <string.h>
static uint32_t got_size; static int got;
static int32_t cbk(void * u, uint16_t meta, enum jls_storage_type_e st, uint8_t * data, uint32_t size) { (void)u;(void)meta;(void)st;(void)data; got_size = size; got++; return 0; }
int main(int argc, char**argv) {
    uint32_t n = argc > 1 ? atoi(argv[1]) : 1048573;
    struct jls_wr_s * wr; if (jls_wr_open(&wr, "/tmp/p1/f6.jls")) return 2;
    uint8_t * d = malloc(n); memset(d, 0x5a, n);
    int rc = jls_wr_user_data(wr, 7, JLS_STORAGE_TYPE_BINARY, d, n); printf("wr rc=%d\n", rc);
    jls_wr_close(wr);
    struct jls_rd_s * rd; if (jls_rd_open(&rd, "/tmp/p1/f6.jls")) { printf("open failed\n"); return 3; }
    rc = jls_rd_user_data(rd, cbk, NULL);
    printf("rd rc=%d items=%d size=%u\n", rc, got, got_size);
    jls_rd_close(rd);
    return (rc == 0 && got == 1 && got_size == n) ? 0 : 1;
}
