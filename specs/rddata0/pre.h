#ifndef VG_RDDATA0_PRE_H
#define VG_RDDATA0_PRE_H
#include <stdint.h>
#include <stddef.h>
struct jls_core_s;
int32_t vg_model_rd_chunk(struct jls_core_s * self);
int32_t vg_model_fsr_seek(struct jls_core_s * self, uint16_t signal_id, uint8_t level, int64_t sample_id);
int32_t vg_model_reconstruct(struct jls_core_s * self, uint16_t signal_id, int64_t start_sample_id);
#endif
