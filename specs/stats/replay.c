/* native replay of counterexamples for statistics.c against the real, un-injected source */
#include "vg_native.h"
#include "jls/statistics.h"
#include <math.h>

static void rd(struct jls_statistics_s * s, const char * pfx) {
    char n[64];
    snprintf(n, sizeof(n), "%s_k", pfx); s->k = vg_in_u64(n, 0);
    snprintf(n, sizeof(n), "%s_mean", pfx); s->mean = vg_in_f64(n, 0);
    snprintf(n, sizeof(n), "%s_s", pfx); s->s = vg_in_f64(n, 0);
    snprintf(n, sizeof(n), "%s_min", pfx); s->min = vg_in_f64(n, 0);
    snprintf(n, sizeof(n), "%s_max", pfx); s->max = vg_in_f64(n, 0);
}

static int r_stat_combine(void) {
    struct jls_statistics_s a, b, t;
    rd(&a, "vg_a0"); rd(&b, "vg_b0");
    unsigned mode = (unsigned) vg_in_u64("mode", 0);
    printf("replay combine: a={k=%llu mean=%a s=%a min=%a max=%a}\n                b={k=%llu mean=%a s=%a min=%a max=%a} mode=%u\n",
           (unsigned long long) a.k, a.mean, a.s, a.min, a.max, (unsigned long long) b.k, b.mean, b.s, b.min, b.max, mode);
    struct jls_statistics_s a0 = a, b0 = b;
    struct jls_statistics_s * tgt = (mode == 1) ? &a : (mode == 2) ? &b : &t;
    jls_statistics_combine(tgt, &a, &b);
    printf("result: k=%llu mean=%a s=%a min=%a max=%a\n", (unsigned long long) tgt->k, tgt->mean, tgt->s, tgt->min, tgt->max);
    VG_CHECK(tgt->k == a0.k + b0.k, "count not exact");
    if (tgt->k) {
        VG_CHECK(tgt->min == fmin(a0.min, b0.min) && tgt->max == fmax(a0.max, b0.max), "min/max not exact");
        VG_CHECK(!(tgt->s < 0.0), "negative variance accumulator %a", tgt->s);
        VG_CHECK(tgt->min <= tgt->mean && tgt->mean <= tgt->max, "mean %a outside [min %a, max %a]", tgt->mean, tgt->min, tgt->max);
    }
    return 0;
}

static int r_stat_add(void) {
    struct jls_statistics_s s;
    rd(&s, "vg_s0");
    double x = vg_in_f64("x", 0);
    struct jls_statistics_s s0 = s;
    jls_statistics_add(&s, x);
    VG_CHECK(s.k == s0.k + 1, "count not exact");
    VG_CHECK(!(s.s < 0.0) && !(s.s < s0.s), "variance accumulator decreased: %a -> %a", s0.s, s.s);
    VG_CHECK(s.min <= s.mean && s.mean <= s.max, "mean %a outside [min %a, max %a]", s.mean, s.min, s.max);
    return 0;
}

int main(void) { return VG_REPLAY_ENTRY(); }
