#include "jls.h"
#include "jls/writer.h"
#include "jls/reader.h"
#include <stdio.h>
#include <stdlib.h>
#include <string.h>
#include <unistd.h>
/* recon <dt: i8|i16|u8>: constant blocks (auto-omitted for <= 8 bits; omission requested for i16) and read-back */
int main(int argc,char**argv){ const char*path="/tmp/p1/recon.jls"; unlink(path); const char*t=argv[1];
  uint32_t dt = !strcmp(t,"i8")?JLS_DATATYPE_I8: !strcmp(t,"i16")?JLS_DATATYPE_I16: !strcmp(t,"i4")?JLS_DATATYPE_I4: JLS_DATATYPE_U8; int bytes = !strcmp(t,"i16")?2:1;
  struct jls_wr_s*wr; if(jls_wr_open(&wr,path)) return 2;
  struct jls_source_def_s s={.source_id=1,.name="s",.vendor="v",.model="m",.version="1",.serial_number="1"}; jls_wr_source_def(wr,&s);
  struct jls_signal_def_s sig={.signal_id=5,.source_id=1,.signal_type=JLS_SIGNAL_TYPE_FSR,.data_type=dt,.sample_rate=1000,.name="x",.units="u"};
  if(jls_wr_signal_def(wr,&sig)) return 2;
  long n=200000; uint8_t*d=malloc(n*bytes); for(long i=0;i<n;i++){ if(bytes==2){ ((int16_t*)d)[i]=(int16_t)-5; } else d[i]= !strcmp(t,"i4")? 0xBB : (uint8_t)(int8_t)-5; }
  for(long i=0;i<1000;i++){ if(bytes==2) ((int16_t*)d)[i]=(int16_t)i; else d[i]=(uint8_t)i; }
  if(bytes==2) jls_wr_fsr_omit_data(wr,5,1);
  long ns = !strcmp(t,"i4")? n*2 : n;
  if(jls_wr_fsr(wr,5,0,d,(uint32_t)ns)) return 2; jls_wr_close(wr);
  struct jls_rd_s*rd; if(jls_rd_open(&rd,path)) return 2; int64_t len=0; jls_rd_fsr_length(rd,5,&len);
  uint8_t*o=calloc(ns*bytes+8,1); int rc=jls_rd_fsr(rd,5,0,o,len); long bad=0; long cmpn = (len<ns?len:ns) * ( !strcmp(t,"i4")? 1:bytes*2)/2;
  if(rc==0) for(long i=0;i<cmpn;i++) if(o[i]!=d[i]){ if(bad<3)printf("byte %ld: read %u written %u\n",i,o[i],d[i]); bad++; }
  printf("%s: written %ld samples, length %ld, read rc=%d, differing bytes %ld\n",t,ns,(long)len,rc,bad); return rc||bad; }
