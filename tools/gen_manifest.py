#!/usr/bin/env python3
"""generate MANIFEST.json from the claim table below (kept next to the specs so it is updated with them)"""
import json, os, glob
V = os.path.dirname(os.path.dirname(os.path.abspath(__file__)))
TECH = "contract-based deductive verification: CBMC 6.11 function/loop contracts (goto-instrument --dfcc enforce/replace) on the injected real sources"

CLAIMS = {
 'C17': dict(cat='other', ref='DESIGN.md §10',
   text='BOUNDED stand-in, forwarding part: the real jls_copy over source files of up to 2 chunks (any non-definition tag, metadata, payload <= 56 bytes), closed or unclosed with a torn tail: every readable FSR data / annotation / UTC / user-data chunk is re-issued through the writer with exactly the stored fields, once and in file order, structural chunks are not re-issued, source and destination are closed on every path, an unclosed original is copied successfully',
   note='all callees are models; definition chunks are covered by the variant unit B-copy-defs (field order/widths of the published layout, every field and string forwarded); that the re-issued calls produce a file that reads back the same rests on C01/C11/C12/C13; known finding F35 (blocks stored only as summaries are not re-created: the copy differs) is reported by the variant unit B-copy-forward-F35; F28 and F34 fixed'),
 'C01': dict(cat='other', ref='DESIGN.md §10',
   text='mixed: contract proofs for wr_data (block write/omission) and jls_buf_realloc; BOUNDED stand-ins (CBMC, unwinding assertions, real functions) for the sample packer jls_wr_fsr_data/wr_data_inner (any packer state, one write at any relative position, blocks of 2-4 bytes), the read window jls_core_fsr (signals of up to 3 blocks, every first sample id, every window, sub-byte unaligned starts, windows ending at the last sample) and the block lookup jls_core_fsr_seek (3 index levels); one arbitrary stored/returned sample compared bit for bit, lengths and block tiling checked',
   note='bounded units are labelled bounded in the evidence and are not proofs; block cache / omitted-block reconstruction / fsr_length are models in the read unit; composition writer->file->reader is argued, not machine-checked; known finding F23 (signals shorter than one summary entry are unreadable) is reported by the variant unit B-core-fsrseek-F23; defects F17 F32 found by these units and fixed'),
 'C09': dict(cat='other', ref='DESIGN.md §10',
   text='BOUNDED stand-in: the real jls_wr_fsr_data / wr_data_inner / wr_data on an arbitrary packer state with one write starting anywhere from one block before to one block after the next expected id (gap, contiguous, partial/total overlap, sub-byte unaligned): signal length = last id + 1 - first id, stored blocks tile the signal, accepted samples survive, new samples bit-exact, skipped samples are 0 (integer) / NaN (float, thorough tier)',
   note='not a proof: blocks of 2-4 bytes, 4-word scratch buffer (hook), gaps up to one block + 1 sample; gaps larger than the scratch buffer and the isfinite filter of the summaries are not covered; the contract units for jls_wr_fsr_data (U-fsr-gapdup-*) do not finish (attic); defects F2 F3 F30 F32 on this path fixed'),
 'C04': dict(cat='proof', ref='DESIGN.md §6 C04',
   text='every accept path of the raw layer (jls_raw_rd_header, jls_raw_rd_payload) is proved to return success only after the stored CRC was compared with the CRC recomputed over exactly the 28 header bytes / payload_length payload bytes; no header field is exposed on failure; with C18 the compared function is CRC-32C',
   note='second session: reader-side lookup jls_core_rd_fsr_data0/level1 under a BOUNDED two-lookup unit (B-core-data0: success never leaves the remains of a failed read in the buffers; F33 found and fixed); assumed: A-CRC-HD (CRC-32C detects <=3 flipped bits / one burst <=32 bits at these lengths: property of the polynomial), A-FS file model, header payload_length <= 0xfffffff0; reader layers above raw (caches in core.c) are covered only by their own units listed in the evidence'),
 'C05': dict(cat='proof', ref='DESIGN.md §6 C05',
   text='per-write conformance: jls_raw_wr / wr_header / wr_payload proved to lay out header (little-endian image, CRC over 28 bytes, payload_prev_length of the physically preceding chunk), payload, zero padding to 8 bytes and little-endian payload CRC over exactly payload_length bytes, for every payload length and file position; chunk-list link rewrite proved (jls_core_update_item_head)',
   note='the walk of a whole file by an independent decoder is NOT one machine-checked theorem: per-write facts + heads-sync invariant, composition argued in DESIGN.md; A-FS file model (witness byte + witness header window)'),
 'C08': dict(cat='proof', ref='DESIGN.md §6 C08',
   text='jls_mrb_alloc/peek/pop/clear contracts discharged for every capacity 16..2^30, head/tail and size: region inside the buffer, disjoint from the live span, live bytes unchanged, appended at the end of the live span, completeness with usable capacity buf_size-10, peek/pop return the record at the start of the live span and advance exactly past it without writing',
   note='the record-chain invariant (every live record well formed, not only the oldest) is a BOUNDED stand-in in the thorough tier (all sequences of 5 alloc/pop operations, capacity 16..24); count<2^32-1 assumed'),
 'C10': dict(cat='proof', ref='DESIGN.md §6 C10',
   text='gate functions (jls_core_signal_validate[_typed]) proved to return 0 only for defined ids of the right type and error codes otherwise; every unit of every other property additionally discharges CBMC\'s memory-safety, overflow, division and termination (loop variant) obligations for the function it enforces',
   note='per-function safety, not a theorem over all call sequences; functions without a unit are not covered (listed in evidence.not_covered); whole-session leak freedom not proved'),
 'C13': dict(cat='proof', ref='DESIGN.md §6 C13',
   text='buffer codec proved: jls_buf_wr_u8/u16/u32/i64/f32/zero append exactly the little-endian bytes and keep earlier bytes; jls_buf_rd_u8/u16/u32/skip decode them (inverse) and fail with EMPTY exactly when too few bytes remain; jls_buf_realloc grows, preserves content and cursor offsets; jls_buf_wr_bin / jls_buf_wr_str append the caller bytes and the {0,0x1f} terminator (absent string = empty); the user-data iteration hands the callback the buffer of the chunk just read with tag/storage/size unpacked from chunk_meta (bounded chain length); undefined-signal gate proved',
   note='definition payload layout (writer.c), its parse (core.c) and jls_buf_rd_str / jls_buf_string_save have no unit; memcpy/strlen through the witness models of stubs/mem_model.c; file composition assumed'),
 'C14': dict(cat='proof', ref='DESIGN.md §6 C14',
   text='the in-place header rewrite is proved to change only item_next (bytes 0..7) and the header CRC (bytes 28..31) of exactly one 32-byte header of a chunk already in the file, under the heads-sync invariant, which it re-establishes; raw writes proved append-only otherwise; witness byte outside the written range unchanged',
   note='heads-sync is an instance invariant over a witness header window (skolem); the head-table rewrite (jls_track_update / jls_track_wr_head) is an attic unit that exceeds memory, and the public jls_wr_* functions have no unit: for them the write discipline is argued from the primitives they call; A-FS'),
 'C16': dict(cat='proof', ref='DESIGN.md §6 C16',
   text='jls_core_signal_def_align proved over the full accepted domain (all 15 data types, all four parameters up to the validated maximum 2^24): minimums, sdf multiple of 256/bits, spd multiple of sdf, eps multiple of spd/sdf and of sdf2; defaults table; round_up_to_multiple; arithmetic lemmas proved by cvc5 int-blasting',
   note='idempotence (normalising normalised parameters changes nothing) is NOT decided: the unit U-def-idem ran 30 minutes without a verdict (attic); loop termination by decreases clause; annotation/UTC decimation factors proved >= 10 after the fix 9319f2a'),
 'C18': dict(cat='proof', ref='DESIGN.md §6 C18',
   text='the SSE4.2 jls_crc32c (three loops) is proved equal to the bit-serial CRC-32C fold for every length <= 2^24 and all 8 alignments by loop contracts in lock step with the reference; jls_crc32c_hdr proved equal to the reference over 28 bytes',
   note='A-ISA: semantics of the crc32 instruction given as the bit-serial step; table-driven build: all 8x256 table entries, the byte step over its full domain and the head/tail byte loops are proved, the 8-byte slicing iteration is NOT decided (XOR-heavy miter); ARM NEON file not compiled on this target'),
 'C20': dict(cat='proof', ref='DESIGN.md §6 C20',
   text='jls_statistics_add/combine/compute_f32/compute_f64/var/reset contracts over IEEE-754 doubles: count exact, min/max exact (bound for an arbitrary witness sample + attained), variance accumulator never negative / never decreasing, min<=mean<=max, empty operand is the identity bit for bit, result may overwrite either operand',
   note='magnitudes <= 2^500, counts < 2^52; "equal up to rounding" across groupings is a forward error bound and is NOT decided; jls_statistics_add (1000 s of FP SAT) runs in the thorough tier only'),
 'C02': dict(cat='proof', ref='DESIGN.md §6 C02, §9',
   text='exact part only: jls_dt_buffer_to_f64 proved to convert every sample (arbitrary witness index) of i4/u4 buffers of any length to the double value the format defines (loop contracts); the 8..64-bit and float conversions are generated by a macro and are checked by bounded unwinding (<= 6 samples, every bit pattern); min/max/count handling of the reductions is the subject of the C20 units',
   note='second session: level-1 summariser jls_core_fsr_summary1 under a BOUNDED unit (one block, 2 entries of 3 samples, arbitrary doubles incl. NaN/inf: min/max exact over the finite samples, all-gap entry is NaN, one index entry per block); block lookup jls_core_fsr_seek bounded (3 index levels); numeric tolerances (mean precision, std ratio, averaged means) are not decided; summary level selection and strides (jls_core_fsr_statistics, fsr_seek) have no unit; the u1 conversion unit exhausts memory (attic); bounded units are labelled bounded in the evidence and not counted as proof'),
 'C11': dict(cat='proof', ref='DESIGN.md §6 C11, §9',
   text='index mechanics of the annotation writer: for every decimation factor 2..65536 and every reachable fill state of the index levels, jls_wr_ts_anno / jls_wr_ts_close append entries in order, never exceed a level buffer, write a full level as INDEX immediately followed by its SUMMARY (same signal/track/level/timestamp), push its first entry one level up and re-establish the level invariant; recursion of commit() fully unwound (depth <= 16)',
   note='second session: jls_core_ts_seek under a BOUNDED unit (3 index levels, chunks of 1..3 entries: the chosen entry neither skips an item >= t nor starts more than one item before t); quick tier: start states with levels 1..3 allocated (upper levels are created by the code under test), all 15 levels in the thorough tier; jls_core_annotations iteration checked on chains of up to 3 chunks with all callees modelled (seek is asked for exactly timestamp + offset); jls_core_ts_seek itself has no unit (F10 found and fixed through native reproduction); file composition assumed'),
 'C12': dict(cat='proof', ref='DESIGN.md §6 C12, §9',
   text='exact part: interp_i64 binary search proved in bounds for every map size up to 2^24 (loop contract: invariant, variant), selecting the segment that contains the argument or the nearest end segment; UTC index writer (jls_wr_ts_utc) as C11',
   note='second session: jls_core_ts_seek (UTC track) bounded as in C11; anchors reproduced exactly and monotonicity/one-tick accuracy of the double interpolation: anchors in the thorough tier (FP), accuracy not decided; A-TSRANGE: stored ids/timestamps < 2^61 (overflow checks of differences waived outside the witness pair); jls_tmap_add has no unit'),
 'C15': dict(cat='proof', ref='DESIGN.md §6 C15, §9',
   text='wr_data proved: a block is summarised exactly once with the same timestamp/count/contents whether or not its data is stored (only the recorded position differs), the first block of a signal is always stored, data of <= 8 bits is omitted only when is_mem_const holds (proved: true only if every byte equals the replicated first sample), wider data only on request, the signal advances by one full block either way, the omit request is a two-stage shift register',
   note='second session: reconstruct_omitted_chunk under BOUNDED units (full block, sample size, bit-exact constant for types of 8 bits or less; F36 found and fixed); known finding F31 (a partially filled final block may be omitted: length drops) reported by the variant unit U-fsr-wrdata-F31; jls_core_fsr_summary1 used through a recording contract (its numeric content is C02); reconstruction on read (reconstruct_omitted_chunk) has no unit; verification hook JLS_VERIF_FSR_BUFFER_WORDS=16'),
 'C19': dict(cat='proof', ref='DESIGN.md §6 C19, §9',
   text='the raw read primitives (jls_raw_rd_header, jls_raw_rd_payload) are proved never to call the backend write (vg_nwrites unchanged) for every file content and position; the control shape of jls_rd_open (no mutating call on a closed file; truncate after re-read, END written last, reopened read-only) is a thorough-tier unit',
   note='U-rd-open-shape did not finish within its time limit in this round (thorough tier); equality of results of first and second open is file composition and is not decided'),
}

NOT_APPLICABLE = {
 'C03': 'crash-point enumeration and functional correctness of the repair functions cannot be expressed as contracts (unbounded on-disk list structure, every interrupted history); the decidable parts (link-after-chunk: U-core-upditem precondition, END-last control shape: U-rd-open-shape) are reported under C14/C19',
 'C06': 'the schedule quantifier is outside contract reasoning; the sequential premises (marshalling round trip through the real queue and dispatch loop, lockset discipline) are built as bounded units (specs/twr) but exceed the memory limit in this round, so they are not claimed',
 'C07': 'liveness/deadlock/flush-close semantics under every schedule: CBMC contracts have no interleaving or fairness semantics; the sequential facts are reported under C06/C10 where built',
}

def main():
    props = [json.loads(l) for l in open(os.path.join(V, 'properties.jsonl'))]
    units = {}
    for uj in glob.glob(os.path.join(V, 'specs', '*', 'units.json')):
        for u in json.load(open(uj))['units']:
            for p in u.get('properties', []):
                units.setdefault(p, []).append(u['name'])
    checks = []
    na = []
    for p in props:
        pid = p['id']
        if pid in CLAIMS and units.get(pid):
            c = CLAIMS[pid]
            checks.append(dict(property_id=pid, quick_cmd='python3 tools/check.py %s quick' % pid,
                               thorough_cmd='python3 tools/check.py %s thorough' % pid,
                               evidence_file='evidence/%s.json' % pid,
                               replay_cmd_template='python3 tools/replay.py {path}', engine='cbmc-contracts',
                               level_claimed=dict(category=c['cat'], text=c['text'], design_ref=c['ref']),
                               level_note=c['note'], technique=TECH))
        else:
            na.append(dict(property_id=pid, reason=NOT_APPLICABLE.get(pid, 'no contract unit carries this property yet in this round (see DESIGN.md §6 for the planned units); not claimed rather than decided by another technique')))
    m = dict(version=1, setup_cmd='python3 tools/setup.py',
             hooks=dict(guard='JLS_VERIF_FSR_BUFFER_WORDS',
                        enable='one hook in /repo (include_prv/jls/core.h): with -DJLS_VERIF_FSR_BUFFER_WORDS=<n> the per-signal FSR scratch array buffer_u64 has n words instead of 4096; only the wrfsr units of tools/check.py pass it (=16) to goto-cc so that struct jls_core_fsr_s fits CBMC. Everything else (contracts, loop invariants, ghost statements) is injected mechanically into a scratch copy of the current /repo/src/*.c on every run (tools/inject.py); nothing else is compiled into /repo',
                        baseline_off_cmd='sh tools/baseline.sh', source_commits=['c9c9799fd8a5513763836c1ef26ae6467d8c1585'], add_only=True),
             engines=[dict(name='cbmc-contracts', path='tools/check.py', serves_properties=[c['property_id'] for c in checks],
                           kind_free_text='CBMC 6.11 code contracts (goto-instrument --dfcc enforce/replace, loop contracts) on the real sources; SAT (cadical) and cvc5 int-blasting back ends')],
             checks=checks, not_applicable=na,
             notes='fix: commits in /repo and known findings are listed in known_findings.json; seeded changes used to test the checks are under seeded/')
    json.dump(m, open(os.path.join(V, 'MANIFEST.json'), 'w'), indent=1)
    print('claimed:', [c['property_id'] for c in checks]); print('not applicable:', [x['property_id'] for x in na])

if __name__ == '__main__':
    main()
