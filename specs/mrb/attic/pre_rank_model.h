/* preamble for msg_ring_buffer.c : ghost state + specification predicates (C08) */
#ifndef VG_MRB_PRE_H
#define VG_MRB_PRE_H
#include <stdint.h>
#include <stddef.h>
#include "jls/msg_ring_buffer.h"

#ifndef VG_MRB_MAX
#define VG_MRB_MAX   (1u << 30)     /* stated bound on the capacity; the product uses 2^26 */
#endif
#define VG_MRB_K     10u            /* usable capacity = buf_size - VG_MRB_K (largest size that fits an empty queue) */

/* basic representation invariant */
#define VG_MRB_WF0(s) ( (s)->buf_size >= 16u && (s)->buf_size <= VG_MRB_MAX      \
     && (s)->head < (s)->buf_size && (s)->tail < (s)->buf_size                    \
     && (s)->head + 4u <= (s)->buf_size && (s)->tail + 4u <= (s)->buf_size )

/* is byte offset o inside the live span [tail,head) (cyclically) */
static inline _Bool vg_mrb_live(uint32_t head, uint32_t tail, uint32_t buf_size, uint32_t o) {
    if (o >= buf_size) return 0;
    if (tail <= head) return (tail <= o) && (o < head);
    return (o >= tail) || (o < head);
}

extern uint32_t vg_o;       /* skolem witness: an arbitrary byte offset of the buffer */

/* ---------------------------------------------------------------------------------------------
 * FIFO ghost: every message gets a sequence number (rank) in allocation order.
 *   vg_na = number of successful allocations so far, vg_np = number of pops so far,
 *   live ranks are [vg_np, vg_na).  off(r) / sz(r) = header offset and payload size of rank r.
 * off/sz are an arbitrary function of the rank; the proof of one operation reads it at no more than 8
 * ranks, so it is represented by an 8-entry association list with arbitrary distinct keys
 * (Ackermann-style skolemisation; the keys are never changed).  The queue invariant is
 *   forall ranks a < b : vg_inv_pair(self, a, b)
 * and is proved for the arbitrary witnesses (vg_m, vg_n) from instances at the ranks an operation touches.
 * ------------------------------------------------------------------------------------------- */
#define VG_NK 8
extern uint64_t vg_na, vg_np, vg_m, vg_n;
extern uint64_t vg_key[VG_NK];
extern uint32_t vg_koff[VG_NK], vg_ksz[VG_NK];

static inline int vg_idx(uint64_t r) {
    return r == vg_key[0] ? 0 : r == vg_key[1] ? 1 : r == vg_key[2] ? 2 : r == vg_key[3] ? 3
         : r == vg_key[4] ? 4 : r == vg_key[5] ? 5 : r == vg_key[6] ? 6 : r == vg_key[7] ? 7 : VG_NK;
}
static inline _Bool vg_tracked(uint64_t r) { return vg_idx(r) < VG_NK; }
static inline uint32_t vg_off(uint64_t r) { int i = vg_idx(r); return i < VG_NK ? vg_koff[i] : 0; }
static inline uint32_t vg_sz(uint64_t r) { int i = vg_idx(r); return i < VG_NK ? vg_ksz[i] : 0; }
/* ghost update of the rank function at rank r (all entries carrying that key) */
static inline void vg_set_rank(uint64_t r, uint32_t o, uint32_t z) {
    if (vg_key[0] == r) { vg_koff[0] = o; vg_ksz[0] = z; }
    if (vg_key[1] == r) { vg_koff[1] = o; vg_ksz[1] = z; }
    if (vg_key[2] == r) { vg_koff[2] = o; vg_ksz[2] = z; }
    if (vg_key[3] == r) { vg_koff[3] = o; vg_ksz[3] = z; }
    if (vg_key[4] == r) { vg_koff[4] = o; vg_ksz[4] = z; }
    if (vg_key[5] == r) { vg_koff[5] = o; vg_ksz[5] = z; }
    if (vg_key[6] == r) { vg_koff[6] = o; vg_ksz[6] = z; }
    if (vg_key[7] == r) { vg_koff[7] = o; vg_ksz[7] = z; }
}
static inline _Bool vg_live(uint64_t r) { return vg_np <= r && r < vg_na; }
static inline uint32_t vg_rd32(const uint8_t * p) {
    return ((uint32_t) p[0]) | (((uint32_t) p[1]) << 8) | (((uint32_t) p[2]) << 16) | (((uint32_t) p[3]) << 24);
}
/* linear position of offset x counted from tail */
static inline uint64_t vg_lp(const struct jls_mrb_s * s, uint32_t x) {
    return (x >= s->tail) ? (uint64_t) x - s->tail : (uint64_t) x + s->buf_size - s->tail;
}
#define VG_NOWRAP 0xffffffffu
extern uint32_t vg_wrap;    /* offset of the most recent wrap marker (set when jls_mrb_alloc writes one) */
/* the wrap marker is live exactly while the live span wraps around the end of the buffer */
static inline uint32_t vg_weff(const struct jls_mrb_s * s) {
    return (s->head < s->tail && vg_wrap >= s->tail && vg_wrap != VG_NOWRAP) ? vg_wrap : VG_NOWRAP;
}

/* facts that do not mention a rank */
static inline _Bool vg_inv_global(const struct jls_mrb_s * s) {
    return VG_MRB_WF0(s) && vg_np <= vg_na && vg_na < (1ull << 62) && (vg_na - vg_np) == (uint64_t) s->count
        && ((vg_np == vg_na) == (s->head == s->tail))
        /* the wrap marker, if any, lies inside the live span, 4 bytes inside the buffer, and the span really wraps */
        && (vg_weff(s) == VG_NOWRAP || (uint64_t) vg_weff(s) + 4 <= s->buf_size)
        && (!(s->head < s->tail) || vg_weff(s) != VG_NOWRAP);
}
/* geometry of one live rank a (vacuous when a is not live): no buffer content involved */
static inline _Bool vg_inv_rank(const struct jls_mrb_s * s, uint64_t a) {
    if (!vg_live(a)) return 1;
    if (!vg_tracked(a) || !VG_MRB_WF0(s)) return 0;
    uint32_t o = vg_off(a), z = vg_sz(a);
    /* the record lies inside the buffer, with room for a wrap marker behind it */
    if (!(z < 0x80000000u && (uint64_t) o + 4 + z + 4 <= s->buf_size)) return 0;
    /* ... and inside the live span */
    if (!(s->head != s->tail && vg_lp(s, o) + 4 + z <= vg_lp(s, s->head))) return 0;
    /* records in front of the wrap marker end at or before it */
    if (vg_weff(s) != VG_NOWRAP && o >= s->tail && !((uint64_t) o + 4 + z <= vg_weff(s))) return 0;
    /* oldest record: tail points at it, or at the wrap marker and the record is at 0 */
    if (a == vg_np && !(s->tail == o || (o == 0 && s->tail == vg_weff(s)))) return 0;
    /* newest record ends at head */
    if (a + 1 == vg_na && !(s->head == o + 4 + z)) return 0;
    return 1;
}
/* geometry of two ranks: allocation order == order inside the live span, no overlap, successor relation */
static inline _Bool vg_inv_pair(const struct jls_mrb_s * s, uint64_t a, uint64_t b) {
    if (!vg_inv_rank(s, a) || !vg_inv_rank(s, b)) return 0;
    if (vg_live(a) && vg_live(b) && a < b) {
        uint32_t e = vg_off(a) + 4 + vg_sz(a);
        if (!(vg_lp(s, vg_off(a)) + 4 + vg_sz(a) <= vg_lp(s, vg_off(b)))) return 0;
        /* successor: contiguous, or at 0 behind the wrap marker */
        if (b == a + 1 && !(vg_off(b) == e || (vg_off(b) == 0 && e == vg_weff(s)))) return 0;
    }
    return 1;
}
/* content: a live record stores its size in front of the payload; the wrap marker is present */
static inline _Bool vg_inv_content(const struct jls_mrb_s * s, uint64_t a) {
    if (!vg_live(a)) return 1;
    return vg_rd32(s->buf + vg_off(a)) == vg_sz(a);
}
static inline _Bool vg_inv_marker(const struct jls_mrb_s * s) {
    return vg_weff(s) == VG_NOWRAP || (s->buf[vg_weff(s) + 3] & 0x80) != 0;
}
#endif
