/* preamble for the open/repair control-shape unit over src/reader.c (C19, C03) */
#ifndef VG_RDOPEN_PRE_H
#define VG_RDOPEN_PRE_H
#include <stdint.h>
#endif
