/* bounded harness for jls_core_ts_seek (annotation / UTC tracks): index levels 1..3 on disk (any subset of head offsets), requested
 * level 0 (what the readers ask for), any timestamp; INDEX chunks with 1..3 entries of non-decreasing timestamps and arbitrary offsets.
 * Models: jls_raw_chunk_seek records the position, jls_core_rd_chunk delivers the index chunk of the level being visited.
 * C11 "seeking by timestamp omits nothing": at every level the entry chosen must not lie after the first entry whose timestamp is
 * >= t (nothing at or after t is skipped), and at level >= 2 -- where the previous child may end with entries of the same timestamp --
 * it must lie strictly before the first entry with timestamp >= t whenever there is an earlier entry. */
#include "vg.h"
#include <stdlib.h>
#ifndef VG_SIG
#define VG_SIG 5
#endif
#ifndef VG_TRACK
#define VG_TRACK JLS_TRACK_TYPE_ANNOTATION
#endif
int32_t nondet_i32(void); int64_t nondet_i64(void); uint32_t nondet_u32(void); _Bool nondet_bool(void);
static int64_t vg_expect_lo, vg_expect_hi;   /* admissible offsets for the next seek are those of entries lo..hi of the chunk just read */
static int64_t vg_offs[3]; static int vg_have_chunk;
static int64_t vg_head_expect;
static int vg_seeks, vg_reads, vg_wrong_seek, vg_io_error, vg_skipped, vg_last_seek_ok;
static int vg_lvl;
static int64_t vg_t;
static int vg_dummy_raw;

int32_t jls_raw_chunk_seek(struct jls_raw_s * self, int64_t offset) {
    (void) self;
    vg_seeks++; vg_last_seek_ok = 1;
    if (!vg_have_chunk) { if (offset != vg_head_expect) { vg_wrong_seek++; vg_last_seek_ok = 0; } }
    else {
        _Bool ok = 0;
        if (vg_expect_lo <= 0 && 0 <= vg_expect_hi && offset == vg_offs[0]) ok = 1;
        if (vg_expect_lo <= 1 && 1 <= vg_expect_hi && offset == vg_offs[1]) ok = 1;
        if (vg_expect_lo <= 2 && 2 <= vg_expect_hi && offset == vg_offs[2]) ok = 1;
        if (!ok) { vg_skipped++; vg_last_seek_ok = 0; }
    }
    if (nondet_bool()) { vg_io_error++; return JLS_ERROR_IO; }
    return 0;
}

int32_t vg_model_rd_chunk(struct jls_core_s * self) {
    if (nondet_bool()) { vg_io_error++; return JLS_ERROR_MESSAGE_INTEGRITY; }
    vg_reads++;
    uint32_t count = nondet_u32(); __CPROVER_assume(count >= 1 && count <= 3);
    free(self->buf->start);
    uint8_t * p = malloc(sizeof(struct jls_index_s) + 3 * sizeof(struct jls_index_entry_s) + 8);
    __CPROVER_assume(p != NULL);
    self->buf->start = p; self->buf->cur = p; self->buf->length = sizeof(struct jls_index_s) + count * sizeof(struct jls_index_entry_s); self->buf->end = p + self->buf->length;
    struct jls_index_s * r = (struct jls_index_s *) p;
    r->header.timestamp = r->entries[0].timestamp; r->header.entry_count = count; r->header.entry_size_bits = 128; r->header.rsv16 = 0;
    __CPROVER_assume(r->entries[0].timestamp > -(1ll << 60) && r->entries[2].timestamp < (1ll << 60));
    __CPROVER_assume(r->entries[0].timestamp <= r->entries[1].timestamp && r->entries[1].timestamp <= r->entries[2].timestamp);   /* written in non-decreasing order */
    self->chunk_cur.hdr.tag = jls_track_tag_pack(VG_TRACK, JLS_TRACK_CHUNK_INDEX);
    vg_offs[0] = r->entries[0].offset; vg_offs[1] = r->entries[1].offset; vg_offs[2] = r->entries[2].offset;
    /* first entry (index f) with timestamp >= t; f == count when there is none */
    int f = (int) count;
    if (count >= 3 && r->entries[2].timestamp >= vg_t) f = 2;
    if (count >= 2 && r->entries[1].timestamp >= vg_t) f = 1;
    if (r->entries[0].timestamp >= vg_t) f = 0;
    /* admissible choices.  Level >= 2 (entries are child index chunks): exactly the child before the first entry with timestamp >= t
     * (that child may still hold items >= t, the one at f may be preceded by items of the same timestamp; an earlier one would deliver more
     * than one item before t).  Level 1 (entries are the items): the item before the first one >= t, or that first one itself. */
    int lo, hi;
    if (f == (int) count) { lo = hi = (int) count - 1; }
    else if (vg_lvl >= 2) { lo = hi = (f > 0) ? f - 1 : 0; }
    else { lo = (f > 0) ? f - 1 : 0; hi = f; }
    vg_expect_lo = lo; vg_expect_hi = hi; vg_have_chunk = 1;
    vg_lvl--;
    return 0;
}

void h_ts_seek(void) {
    struct jls_core_s * c = malloc(sizeof(*c));
    __CPROVER_assume(c != NULL);
    struct jls_buf_s * b = malloc(sizeof(*b)); __CPROVER_assume(b != NULL);
    b->start = malloc(8); __CPROVER_assume(b->start != NULL);
    struct jls_core_signal_s * si = &c->signal_info[VG_SIG];
    __CPROVER_assume(c->buf == b && c->raw == (struct jls_raw_s *) &vg_dummy_raw
        && si->signal_def.signal_id == VG_SIG && si->chunk_def.offset == 64);
    int64_t * heads = si->tracks[VG_TRACK].head_offsets;
    __CPROVER_assume(heads[4] == 0 && heads[5] == 0 && heads[6] == 0 && heads[7] == 0 && heads[8] == 0 && heads[9] == 0 && heads[10] == 0 && heads[11] == 0
        && heads[12] == 0 && heads[13] == 0 && heads[14] == 0 && heads[15] == 0);
    int top = -1;
    if (heads[3]) top = 3; else if (heads[2]) top = 2; else if (heads[1]) top = 1; else if (heads[0]) top = 0;
    int64_t t;
    __CPROVER_assume(t > -(1ll << 60) && t < (1ll << 60));
    vg_t = t; vg_lvl = top; vg_head_expect = (top >= 0) ? heads[top] : 0; vg_have_chunk = 0;
    vg_seeks = 0; vg_reads = 0; vg_wrong_seek = 0; vg_io_error = 0; vg_skipped = 0; vg_last_seek_ok = 0;
    int32_t rc = jls_core_ts_seek(c, VG_SIG, 0, VG_TRACK, t);
    if (top < 0) { __CPROVER_assert(rc != 0 && vg_seeks == 0, "a track without any chunk is reported as not found"); }
    __CPROVER_assert(vg_wrong_seek == 0, "the descent starts at the head of the highest level on disk");
    __CPROVER_assert(vg_skipped == 0, "C11: at every level the chosen entry neither skips an item with timestamp >= t nor starts more than one item before t");
    __CPROVER_assert(rc != 0 || (vg_lvl == 0 && vg_seeks >= 1 && vg_last_seek_ok && vg_io_error == 0), "success = descended to level 0, positioned at an admissible entry, no error swallowed");
    __CPROVER_assert(rc == 0 || top < 0 || vg_io_error != 0, "the lookup fails only when a seek or read fails");
    VG_REACH(ts_seek_returns);
    if (rc == 0 && top == 3) { VG_REACH(ts_seek_three_levels); }
}
