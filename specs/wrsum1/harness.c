/* bounded harness for jls_core_fsr_summary1: one full block of VG_SPD = 2 * VG_SDF samples with arbitrary double values (finite, infinite
 * or NaN = gap fill), summary format f32 or f64 (by data type).  The conversion of the stored samples to double (jls_dt_buffer_to_f64) is
 * the subject of the dt units and is modelled: it delivers the ghost values.  sqrt is left unconstrained (std is not checked here).
 * C02: each level-1 entry's min and max are exactly the extremes of the finite samples of its window; C09: samples that are not finite
 * (gap fill) are absent: an entry without any finite sample is NaN.  One index entry per block holds the position given (0 = omitted). */
#include "vg.h"
#include <stdlib.h>
#include <math.h>
#define VG_SDF 3
#define VG_SPD 6
int32_t nondet_i32(void); int64_t nondet_i64(void); uint32_t nondet_u32(void); _Bool nondet_bool(void);
static double vg_vals[VG_SPD];
static int vg_ws_calls;
double sqrt(double x) { (void) x; double r; return r; }
int32_t jls_dt_buffer_to_f64(const void * src, uint32_t src_datatype, double * dst, size_t samples) {
    (void) src; (void) src_datatype;
    for (size_t i = 0; i < VG_SPD; ++i) { if (i < samples) { dst[i] = vg_vals[i]; } }
    return 0;
}
int32_t vg_model_wr_summary(struct jls_core_fsr_s * self, uint8_t level) {
    vg_ws_calls++;
    self->level[level]->index->header.entry_count = 0; self->level[level]->summary->header.entry_count = 0;
    return 0;
}
void h_sum1(void) {
    struct jls_core_fsr_s * f = malloc(sizeof(*f));
    struct jls_core_signal_s * sig = malloc(sizeof(*sig));
    __CPROVER_assume(f != NULL && sig != NULL);
    f->parent = sig;
    for (int l = 0; l < JLS_SUMMARY_LEVEL_COUNT; ++l) { f->level[l] = NULL; }
    sig->signal_def.data_type = VG_DT; sig->signal_def.samples_per_data = VG_SPD; sig->signal_def.sample_decimate_factor = VG_SDF;
    sig->signal_def.entries_per_summary = 8; sig->signal_def.summary_decimate_factor = 2; sig->signal_def.signal_id = 5;
    int64_t ts, pos; __CPROVER_assume(ts > -(1ll << 60) && ts < (1ll << 60));
    f->sample_id_offset = ts;
    f->data = malloc(sizeof(struct jls_fsr_data_s) + VG_SPD * 8); f->data_f64 = malloc(VG_SPD * sizeof(double));
    __CPROVER_assume(f->data != NULL && f->data_f64 != NULL);
    f->data->header.timestamp = ts; f->data->header.entry_count = VG_SPD; f->data->header.entry_size_bits = (VG_DT >> 8) & 0xff; f->data->header.rsv16 = 0;
    f->data_length = VG_SPD;
    for (int i = 0; i < VG_SPD; ++i) { double v; __CPROVER_assume(!(v == v) || isinf(v) || (v > -1e30 && v < 1e30)); vg_vals[i] = v; }
    vg_ws_calls = 0;
    int32_t rc = jls_core_fsr_summary1(f, pos);
    __CPROVER_assert(rc == 0, "the level-1 summary of a block is computed");
    struct jls_core_fsr_level_s * L = f->level[1];
    __CPROVER_assert(L != NULL && L->index->header.entry_count == 1 && L->index->offsets[0] == pos && L->index->header.timestamp == ts && L->summary->header.timestamp == ts,
                     "C02/C15: one index entry per block holding the given position (0 = omitted); index and summary start at the block's first id");
    __CPROVER_assert(L->summary->header.entry_count == VG_SPD / VG_SDF && vg_ws_calls == 0, "C02: one summary entry per sample_decimate_factor samples");
    unsigned e; __CPROVER_assume(e < VG_SPD / VG_SDF);
    double a = vg_vals[e * VG_SDF], b = vg_vals[e * VG_SDF + 1], c = vg_vals[e * VG_SDF + 2];
    _Bool fa = isfinite(a), fb = isfinite(b), fc = isfinite(c);
    double o_mean, o_min, o_max;
    if (VG_SUM64) { const double * d = (const double *) L->summary->data; o_mean = d[e * 4 + JLS_SUMMARY_FSR_MEAN]; o_min = d[e * 4 + JLS_SUMMARY_FSR_MIN]; o_max = d[e * 4 + JLS_SUMMARY_FSR_MAX]; }
    else { const float * d = (const float *) L->summary->data; o_mean = d[e * 4 + JLS_SUMMARY_FSR_MEAN]; o_min = d[e * 4 + JLS_SUMMARY_FSR_MIN]; o_max = d[e * 4 + JLS_SUMMARY_FSR_MAX]; }
    if (!fa && !fb && !fc) {
        __CPROVER_assert(isnan(o_mean) && isnan(o_min) && isnan(o_max), "C09: an entry whose samples are all gap fill (not finite) is NaN");
    } else {
        double t_min = 0, t_max = 0; _Bool have = 0;
        if (fa) { t_min = a; t_max = a; have = 1; }
        if (fb) { if (!have || b < t_min) t_min = b; if (!have || b > t_max) t_max = b; have = 1; }
        if (fc) { if (!have || c < t_min) t_min = c; if (!have || c > t_max) t_max = c; have = 1; }
        if (VG_SUM64) { __CPROVER_assert(o_min == t_min && o_max == t_max, "C02/C09: min and max are exactly the extremes of the finite samples (gap samples are absent)"); }
        else { __CPROVER_assert(o_min == (double) (float) t_min && o_max == (double) (float) t_max, "C02/C09: min and max are exactly the extremes of the finite samples (gap samples are absent)"); }
        __CPROVER_assert(!isnan(o_mean), "C09: the mean of an entry with at least one finite sample is a number");
        if (fa && fb && fc && a == b && b == c && VG_SUM64) { __CPROVER_assert(o_mean >= a - 1e-9 * (a < 0 ? -a : a) - 1e-300 && o_mean <= a + 1e-9 * (a < 0 ? -a : a) + 1e-300, "C02: the mean of equal samples is that value up to rounding"); }
    }
    VG_REACH(sum1_returns);
    if (fa && !fb && fc) { VG_REACH(sum1_gap_inside_entry); }
}
