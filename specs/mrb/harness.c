/* harnesses for msg_ring_buffer.c -- included at the end of the injected TU */
#include "vg.h"
#include <stdlib.h>
uint32_t vg_o;

void h_mrb_clear(void) {
    struct jls_mrb_s * self;
    jls_mrb_clear(self);
    VG_REACH(clear_returns);
}

void h_mrb_alloc(void) {
    struct jls_mrb_s * self;
    uint32_t size;
    uint8_t * p = jls_mrb_alloc(self, size);
    VG_REACH(alloc_returns);
    if (p) { VG_REACH(alloc_nonnull); } else { VG_REACH(alloc_null); }
}

void h_mrb_peek(void) {
    struct jls_mrb_s * self;
    uint32_t * size;
    uint8_t * p = jls_mrb_peek(self, size);
    VG_REACH(peek_returns);
    if (p) { VG_REACH(peek_nonnull); } else { VG_REACH(peek_null); }
}

void h_mrb_pop(void) {
    struct jls_mrb_s * self;
    uint32_t * size;
    uint8_t * p = jls_mrb_pop(self, size);
    VG_REACH(pop_returns);
    if (p) { VG_REACH(pop_nonnull); } else { VG_REACH(pop_null); }
}

/* ------------------------------------------------------------------------------------------------
 * BOUNDED stand-in for the record-chain invariant (not counted as proved):
 * every sequence of VG_SEQ_OPS alloc/pop operations with arbitrary sizes on a queue of any capacity 16..VG_SEQ_CAP,
 * executed on the real functions (no contracts), checked against a model FIFO kept by the harness:
 *   - vg_mrb_first_ok (the precondition of the peek/pop contracts) holds after every operation,
 *   - pop returns the messages in allocation order with the size and the bytes they were given.
 * ---------------------------------------------------------------------------------------------- */
#ifndef VG_SEQ_OPS
#define VG_SEQ_OPS 6
#endif
#ifndef VG_SEQ_CAP
#define VG_SEQ_CAP 48
#endif
void h_mrb_seq(void) {
    struct jls_mrb_s q;
    uint32_t cap;
    __CPROVER_assume(cap >= 16 && cap <= VG_SEQ_CAP);
    uint8_t * mem = malloc(cap);
    __CPROVER_assume(mem != NULL);
    jls_mrb_init(&q, mem, cap);
    uint32_t m_off[VG_SEQ_OPS], m_sz[VG_SEQ_OPS]; uint8_t m_tag[VG_SEQ_OPS];
    unsigned m_head = 0, m_tail = 0;
    for (unsigned k = 0; k < VG_SEQ_OPS; ++k) {
        _Bool do_alloc; uint32_t sz; uint8_t tag;
        if (do_alloc) {
            __CPROVER_assume(sz <= cap);
            uint8_t * p = jls_mrb_alloc(&q, sz);
            if (p) {
                __CPROVER_assert(p >= mem + 4 && (p - mem) + sz <= cap, "C08 bounded: region inside the queue memory");
                for (unsigned j = m_tail; j < m_head; ++j) {
                    __CPROVER_assert((uint32_t) (p - mem) + sz <= m_off[j] - 4 || (uint32_t) (p - mem) - 4 >= m_off[j] + m_sz[j],
                                     "C08 bounded: new region does not overlap an un-popped message");
                }
                if (sz) { p[0] = tag; p[sz - 1] = tag; }
                m_off[m_head] = (uint32_t) (p - mem); m_sz[m_head] = sz; m_tag[m_head] = tag; ++m_head;
            } else if (m_head == m_tail) {
                __CPROVER_assert(sz + VG_MRB_K > cap, "C08 bounded: an emptied queue accepts anything up to the usable capacity");
            }
        } else {
            uint32_t got;
            uint8_t * p = jls_mrb_pop(&q, &got);
            if (m_head == m_tail) {
                __CPROVER_assert(p == NULL, "C08 bounded: pop on an empty queue returns NULL");
            } else {
                __CPROVER_assert(p == mem + m_off[m_tail] && got == m_sz[m_tail], "C08 bounded: messages come out in allocation order with their size");
                __CPROVER_assert(got == 0 || (p[0] == m_tag[m_tail] && p[got - 1] == m_tag[m_tail]), "C08 bounded: ... and their bytes");
                ++m_tail;
            }
        }
        __CPROVER_assert(vg_mrb_first_ok(&q), "C08 bounded: oldest record well formed after every operation (precondition of the peek/pop contracts)");
        __CPROVER_assert((m_head == m_tail) == (q.head == q.tail) && q.count == m_head - m_tail, "C08 bounded: empty <=> head==tail, count exact");
    }
    VG_REACH(seq_done);
    if (m_head - m_tail >= 3 && q.head < q.tail) { VG_REACH(seq_three_live_wrapped); }
}
