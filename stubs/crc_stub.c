/* recording stubs for jls_crc32c / jls_crc32c_hdr, used by the units above the CRC layer.
 * The real functions are proved equal to CRC-32C in the C18 units; here only "which bytes were covered"
 * and "which value came back" matter, so the value is arbitrary. */
#include <stdint.h>
#include "jls/crc32c.h"
#include "jls/format.h"
const uint8_t * vg_crc_arg; uint32_t vg_crc_len; uint32_t vg_crc_ret; uint64_t vg_crc_calls;
const struct jls_chunk_header_s * vg_hcrc_arg; uint32_t vg_hcrc_ret; uint64_t vg_hcrc_calls;
uint32_t nondet_u32(void);
uint32_t jls_crc32c(uint8_t const * data, uint32_t length) {
    __CPROVER_assert(length == 0 || __CPROVER_r_ok(data, length), "jls_crc32c reads only inside the buffer it is given");
    vg_crc_arg = data; vg_crc_len = length; vg_crc_ret = nondet_u32(); vg_crc_calls++;
    return vg_crc_ret;
}
/* the header CRC is a function of the 28 covered bytes: an uninterpreted function of them (functional consistency only),
 * so that "same bytes => same CRC" and "CRC recomputed over the stored bytes" can be expressed */
uint32_t __CPROVER_uninterpreted_hcrc(uint64_t w0, uint64_t w1, uint64_t w2, uint32_t w3);
uint32_t vg_hcrc_of(const struct jls_chunk_header_s * h) {
    uint64_t w2 = ((uint64_t) h->tag) | ((uint64_t) h->rsv0_u8 << 8) | ((uint64_t) h->chunk_meta << 16) | ((uint64_t) h->payload_length << 32);
    return __CPROVER_uninterpreted_hcrc(h->item_next, h->item_prev, w2, h->payload_prev_length);
}
uint32_t jls_crc32c_hdr(const struct jls_chunk_header_s * hdr) {
    vg_hcrc_arg = hdr; vg_hcrc_calls++; vg_hcrc_ret = vg_hcrc_of(hdr);
    return vg_hcrc_ret;
}
