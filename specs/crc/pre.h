/* preamble for the CRC-32C units (C18): bit-serial reference written from the property statement:
 * CRC-32C (Castagnoli), reflected, polynomial 0x1EDC6F41 (reversed 0x82F63B78), init and final XOR 0xFFFFFFFF */
#ifndef VG_CRC_PRE_H
#define VG_CRC_PRE_H
#include <stdint.h>
#include <stddef.h>

static inline uint32_t vg_spec_bit(uint32_t c) {
    return (c >> 1) ^ (0x82F63B78u & (0u - (c & 1u)));
}
/* one byte of the bit-serial reference */
static inline uint32_t vg_spec_byte(uint32_t c, uint8_t b) {
    c ^= b;
    c = vg_spec_bit(c); c = vg_spec_bit(c); c = vg_spec_bit(c); c = vg_spec_bit(c);
    c = vg_spec_bit(c); c = vg_spec_bit(c); c = vg_spec_bit(c); c = vg_spec_bit(c);
    return c;
}
/* four consecutive bytes of the reference (loop-free: loops without contracts are not allowed next to dfcc) */
static inline uint32_t vg_spec_4(uint32_t c, const uint8_t * p) {
    c = vg_spec_byte(c, p[0]); c = vg_spec_byte(c, p[1]); c = vg_spec_byte(c, p[2]); c = vg_spec_byte(c, p[3]);
    return c;
}
#define VG_CRC_MAXLEN (1u << 24)   /* stated input-size bound of the proof (object size); the induction is unbounded */

/* recording ghosts shared with callers that replace jls_crc32c / jls_crc32c_hdr by their contracts */
extern const uint8_t * vg_crc_arg;
extern uint32_t vg_crc_len;
extern uint32_t vg_crc_ret;
extern uint32_t vg_sw_ret;
#endif
