#!/bin/sh
# repository test suite with the verification guard OFF (no hook is compiled into /repo at all).
# serial ctest: jls_test and repair_test share "jls_test_tmp.jls" in one working directory and collide under -j.
set -e
cmake --build /repo/_build >/dev/null
exec ctest --test-dir /repo/_build --timeout 900
