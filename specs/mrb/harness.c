/* harnesses for msg_ring_buffer.c -- included at the end of the injected TU */
#include "vg.h"
uint32_t vg_o;

void h_mrb_alloc(void) {
    struct jls_mrb_s * self;
    uint32_t size;
    uint8_t * p = jls_mrb_alloc(self, size);
    VG_REACH(alloc_returns);
    if (p) { VG_REACH(alloc_nonnull); } else { VG_REACH(alloc_null); }
}
