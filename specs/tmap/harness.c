/* harnesses for tmap.c -- included at the end of the injected TU */
#include "vg.h"
size_t vg_i, vg_seg;

void h_tmap_interp(void) {
    struct jls_tmap_s * m = malloc(sizeof(*m));
    __CPROVER_assume(m != NULL);
    size_t n; __CPROVER_assume(n >= 2 && n <= VG_TMAP_MAX);
    m->entries_length = n; m->entries_alloc = n;          /* exactly full: nothing readable behind the last entry */
    int64_t * x = malloc(n * 8); int64_t * y = malloc(n * 8);
    __CPROVER_assume(x != NULL && y != NULL);
    m->sample_id = x; m->utc = y;
    int64_t x0;
    /* the selected segment is the witness pair (the witness is arbitrary, so this covers every segment) */
    int64_t r = interp_i64(m, x0, x, y);
    VG_REACH(interp_returns);
    if (vg_seg == vg_i && vg_seg > 3 && x0 == x[vg_seg]) { VG_REACH(interp_anchor); }
    if (vg_seg + 2 == n && x0 > x[n - 1]) { VG_REACH(interp_extrapolate_right); }
}

void h_tmap_add(void) {
    struct jls_tmap_s * m = malloc(sizeof(*m));
    __CPROVER_assume(m != NULL);
    size_t alloc, n; __CPROVER_assume(alloc >= 2 && alloc <= VG_TMAP_MAX / 2 && n <= alloc);
    m->entries_alloc = alloc; m->entries_length = n;
    m->sample_id = malloc(alloc * 8); m->utc = malloc(alloc * 8);
    __CPROVER_assume(m->sample_id != NULL && m->utc != NULL);
    int64_t sid, ts;
    int32_t rc = jls_tmap_add(m, sid, ts);
    VG_REACH(tmap_add_returns);
    if (rc == 0 && n == alloc) { VG_REACH(tmap_add_grew); }
    if (rc != 0) { VG_REACH(tmap_add_rejected); }
}
