/* bounded harness for jls_core_fsr (C01): every read window of a signal of up to VG_CHUNKS storage blocks of VG_SPD samples each.
 * The stored sample stream is an arbitrary byte string vg_S; block c holds the samples [c*SPD, (c+1)*SPD) (the last block may be
 * partial), packed from bit 0 of its payload exactly as wr_data_inner packs them.  The first sample id (sample_id_offset) is arbitrary.
 * jls_core_rd_fsr_data0 / jls_core_fsr_length are models of the block lookup (see spec.txt); everything else is the real code. */
#include "vg.h"
#include <stdlib.h>
#ifndef VG_SIG
#define VG_SIG 5
#endif
#ifndef VG_BITS
#define VG_BITS 1
#endif
#ifndef VG_CHUNKS
#define VG_CHUNKS 3
#endif
#ifndef VG_CHUNK_BYTES
#define VG_CHUNK_BYTES 2
#endif
#define VG_SPD ((VG_CHUNK_BYTES * 8) / VG_BITS)
#define VG_SLACK 8
int32_t nondet_i32(void); uint8_t nondet_u8(void); _Bool nondet_bool(void);
static const uint8_t * vg_S;   /* the stored stream: VG_CHUNKS * VG_CHUNK_BYTES arbitrary bytes */
static int64_t vg_total;       /* samples in the signal */
static int64_t vg_off;         /* first sample id */
static int vg_model_errors, vg_model_calls, vg_bad_request;
static int vg_dummy_raw;

/* byte-loop memcpy (CBMC's built-in array copy with a symbolic length is far more expensive); bounded by the block size */
void * memcpy(void * dst, const void * src, size_t n) {
    for (size_t i = 0; i < n; ++i) { ((uint8_t *) dst)[i] = ((const uint8_t *) src)[i]; }
    return dst;
}

int32_t vg_model_fsr_length(struct jls_core_s * self, uint16_t signal_id, int64_t * samples) {
    (void) self; (void) signal_id;
    *samples = vg_total;
    return 0;
}

int32_t vg_model_rd_fsr_data0(struct jls_core_s * self, uint16_t signal_id, int64_t start_sample_id) {
    (void) signal_id;
    vg_model_calls++;
    if (nondet_bool()) { vg_model_errors++; return JLS_ERROR_MESSAGE_INTEGRITY; }
    int64_t rel = start_sample_id - vg_off;
    if (rel < 0 || rel >= vg_total) { vg_bad_request++; return JLS_ERROR_NOT_FOUND; }
    int64_t c = rel / VG_SPD;
    int64_t count = vg_total - c * VG_SPD; if (count > VG_SPD) count = VG_SPD;
    size_t nbytes = (size_t) ((count * VG_BITS + 7) / 8);
    /* the payload buffer may move; bytes after the payload are stale garbage (the real buffer is larger than the payload) */
    free(self->buf->start);
    uint8_t * p = malloc(sizeof(struct jls_fsr_data_s) + VG_CHUNK_BYTES + VG_SLACK);
    __CPROVER_assume(p != NULL);
    self->buf->start = p; self->buf->cur = p; self->buf->length = sizeof(struct jls_fsr_data_s) + nbytes; self->buf->end = p + self->buf->length;
    struct jls_fsr_data_s * r = (struct jls_fsr_data_s *) p;
    r->header.timestamp = vg_off + c * VG_SPD; r->header.entry_count = (uint32_t) count; r->header.entry_size_bits = VG_BITS; r->header.rsv16 = 0;
    uint8_t * d = (uint8_t *) r->data;
    for (size_t j = 0; j < VG_CHUNK_BYTES; ++j) {
        if (j < nbytes) { d[j] = vg_S[c * VG_CHUNK_BYTES + j]; }
    }
    return 0;
}

/* unit n of a packed little-endian bit string: a whole sample for sub-byte types, one byte for the others */
#if VG_BITS < 8
#define VG_UNITS_PER_SAMPLE 1
static unsigned vg_unit(const uint8_t * b, int64_t n) { int64_t bit = n * VG_BITS; return (b[bit / 8] >> (bit % 8)) & ((1u << VG_BITS) - 1u); }
#else
#define VG_UNITS_PER_SAMPLE (VG_BITS / 8)
static unsigned vg_unit(const uint8_t * b, int64_t n) { return b[n]; }
#endif

void h_core_fsr(void) {
    struct jls_core_s * c = malloc(sizeof(*c));   /* jls_core_fsr uses signal_info[VG_SIG] and buf only */
    __CPROVER_assume(c != NULL);
    struct jls_buf_s * b = malloc(sizeof(*b)); __CPROVER_assume(b != NULL);
    b->start = malloc(8); __CPROVER_assume(b->start != NULL);
    struct jls_core_signal_s * si = &c->signal_info[VG_SIG];
    /* the (1.6 MB) core record is constrained, not assigned: assignments to it would put the whole record into every trace step */
    __CPROVER_assume(c->buf == b && si->signal_def.signal_id == VG_SIG && si->signal_def.signal_type == JLS_SIGNAL_TYPE_FSR && si->chunk_def.offset == 64
        && si->signal_def.data_type == VG_DT && si->signal_def.samples_per_data == VG_SPD);
    int64_t total, off, start, len;
    __CPROVER_assume(total >= 0 && total <= (int64_t) VG_CHUNKS * VG_SPD);
    __CPROVER_assume(off > -(1ll << 60) && off < (1ll << 60));
    __CPROVER_assume(start > -(1ll << 60) && start < (1ll << 60) && len < (1ll << 60) && len > -(1ll << 60));
    uint8_t stream[VG_CHUNKS * VG_CHUNK_BYTES];      /* uninitialised: arbitrary contents */
    vg_S = stream;
    vg_total = total; vg_off = off; vg_model_errors = 0; vg_model_calls = 0; vg_bad_request = 0;
    __CPROVER_assume(si->signal_def.sample_id_offset == off);
    /* the caller's buffer holds exactly the requested samples (rounded up to a byte) */
    size_t out_sz = (len > 0 && len <= (int64_t) VG_CHUNKS * VG_SPD) ? (size_t) ((len * VG_BITS + 7) / 8) : 0;
    uint8_t * out = malloc(out_sz ? out_sz : 1);
    __CPROVER_assume(out != NULL);
    _Bool valid = (len <= 0) || (start >= 0 && start + len <= total);
    int32_t rc = jls_core_fsr(c, VG_SIG, start, out, len);
    if (len <= 0) {
        __CPROVER_assert(rc == 0, "an empty window succeeds");
    } else if (!valid) {
        __CPROVER_assert(rc != 0, "C01/C10: a window outside the signal is rejected with an error code");
    } else {
        __CPROVER_assert(vg_model_errors != 0 || rc == 0, "C01: a window inside the signal succeeds when every block can be read");
        __CPROVER_assert(vg_model_errors == 0 || rc != 0, "C04: a block read error is reported");
        if (rc == 0) {
            int64_t i; __CPROVER_assume(i >= 0 && i < len * VG_UNITS_PER_SAMPLE);
            __CPROVER_assert(vg_unit(out, i) == vg_unit(vg_S, start * VG_UNITS_PER_SAMPLE + i), "C01: every sample of the window is bit-for-bit the sample start+i of the stored stream");
        }
    }
    VG_REACH(core_fsr_returns);
#if VG_BITS < 8
    if (rc == 0 && len > VG_SPD + 1 && ((start * VG_BITS) & 7)) { VG_REACH(core_fsr_unaligned_crossing); }
#endif
    if (rc == 0 && len > 2 * VG_SPD) { VG_REACH(core_fsr_three_blocks); }
}
