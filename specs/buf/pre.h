/* preamble for src/buffer.c (C13, C10, C01) */
#ifndef VG_BUF_PRE_H
#define VG_BUF_PRE_H
#include <stdint.h>
#include <stddef.h>
#include "jls/buffer.h"

#define VG_BUF_MAX (1ull << 33)   /* stated bound on the allocation size (payload lengths are 32-bit) */

/* representation invariant: start is a live allocation of alloc_size bytes, cur and end point into it */
#define VG_BUF_WF(b) VG_BUF_WFM(b, VG_BUF_MAX)
#define VG_BUF_WFM(b, max) ( (b)->start != NULL && (b)->alloc_size >= 16 && (b)->alloc_size <= (max) \
    && __CPROVER_POINTER_OFFSET((b)->start) == 0 && __CPROVER_OBJECT_SIZE((b)->start) == (b)->alloc_size \
    && __CPROVER_same_object((b)->start, (b)->cur) && __CPROVER_same_object((b)->start, (b)->end) \
    && __CPROVER_POINTER_OFFSET((b)->cur) >= 0 && __CPROVER_POINTER_OFFSET((b)->cur) <= __CPROVER_POINTER_OFFSET((b)->end) \
    && (size_t) __CPROVER_POINTER_OFFSET((b)->end) <= (b)->alloc_size )
/* writing: the cursor is at the end and length counts the bytes written */
#define VG_BUF_WR(b) ( VG_BUF_WF(b) && (b)->cur == (b)->end && (b)->length == (size_t) __CPROVER_POINTER_OFFSET((b)->end) )

static inline uint32_t vg_f32_bits(float f) { union { float f; uint32_t u; } x; x.f = f; return x.u; }
extern size_t vg_k;         /* skolem witness: an arbitrary index into the appended bytes */
extern size_t vg_slen;      /* ghost: length strlen reported */
extern size_t vg_mem_i;     /* witness index of the memcpy model (stubs/mem_model.c) */
extern size_t vg_o;         /* skolem witness: an arbitrary byte offset */
extern size_t vg_len0, vg_cur0, vg_end0, vg_alloc0;      /* ghost: length, cursor offset, end offset on entry */
extern uint8_t vg_byte0;    /* ghost: byte at vg_o on entry */
#endif
