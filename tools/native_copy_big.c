#include "jls/writer.h"
#include "jls/reader.h"
#include "jls/copy.h"
#include "jls/format.h"
#include <stdio.h>
#include <stdlib.h>
#include <string.h>
static int got; static uint32_t got_size;
static int32_t cbk(void * u, uint16_t meta, enum jls_storage_type_e st, uint8_t * data, uint32_t size) { (void)u;(void)meta;(void)st;(void)data; got_size = size; got++; return 0; }
int main(int argc, char**argv) {
    uint32_t n = argc > 1 ? atoi(argv[1]) : 1048573;
    struct jls_wr_s * wr; if (jls_wr_open(&wr, "/tmp/p1/f28a.jls")) return 2;
    uint8_t * d = malloc(n); memset(d, 0x5a, n);
    jls_wr_user_data(wr, 7, JLS_STORAGE_TYPE_BINARY, d, n);
    jls_wr_close(wr);
    int rc = jls_copy("/tmp/p1/f28a.jls", "/tmp/p1/f28b.jls", NULL, NULL, NULL, NULL);
    struct jls_rd_s * rd; if (jls_rd_open(&rd, "/tmp/p1/f28b.jls")) { printf("open copy failed\n"); return 3; }
    jls_rd_user_data(rd, cbk, NULL);
    printf("copy rc=%d items in copy=%d size=%u (expected 1 item of %u bytes)\n", rc, got, got_size, n);
    jls_rd_close(rd);
    return (got == 1 && got_size == n) ? 0 : 1;
}
