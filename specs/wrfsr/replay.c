/* native replay for the wr_data unit (C15): a signal whose final block is partially filled and eligible for omission
 * (constant data for types of 8 bits or less, omission requested for wider types) is written through the real writer;
 * the reader must report the written length. */
#include "vg_native.h"
#include "jls/writer.h"
#include "jls/reader.h"
#include "jls/format.h"
#include <unistd.h>

static int r_wrdata(void) {
    /* this driver exercises one clause only (a partially filled final block eligible for omission); for any other clause of wr_data it
     * declines, so that the known finding F31 is not mistaken for a reproduction of something else */
    const char * desc = getenv("VG_OBLIGATION_DESC");
    if (desc && desc[0] && !strstr(desc, "only full blocks are omitted")) { printf("replay: no native driver for this clause\n"); return 0; }
    uint32_t bits = (uint32_t) vg_in_u64("bits", 8), count = (uint32_t) vg_in_u64("count", 1), spd = (uint32_t) vg_in_u64("spd", 32);
    uint32_t dt = bits == 1 ? JLS_DATATYPE_U1 : bits == 4 ? JLS_DATATYPE_U4 : bits == 8 ? JLS_DATATYPE_U8 : bits == 16 ? JLS_DATATYPE_I16
                : bits == 24 ? JLS_DATATYPE_I24 : bits == 32 ? JLS_DATATYPE_F32 : JLS_DATATYPE_F64;
    uint32_t spd_r = 256 / bits;                 /* the smallest block the writer accepts */
    if (count >= spd) { printf("replay: a full block\n"); return 0; }
    uint32_t tail = (count < spd_r) ? count : spd_r - 1;
    if (tail == 0) { printf("replay: empty block\n"); return 0; }
    int64_t total = 2 * (int64_t) spd_r + tail;
    char path[] = "/tmp/vg_replay_XXXXXX";
    int fd = mkstemp(path); close(fd);
    struct jls_wr_s * wr;
    if (jls_wr_open(&wr, path)) { unlink(path); return 0; }
    struct jls_source_def_s src = {.source_id = 1, .name = "s", .vendor = "v", .model = "m", .version = "1", .serial_number = "1"};
    jls_wr_source_def(wr, &src);
    struct jls_signal_def_s sig = {.signal_id = 5, .source_id = 1, .signal_type = JLS_SIGNAL_TYPE_FSR, .data_type = dt, .sample_rate = 1000,
        .samples_per_data = spd_r, .sample_decimate_factor = spd_r, .entries_per_summary = 64, .summary_decimate_factor = 4, .name = "x", .units = "u"};
    if (jls_wr_signal_def(wr, &sig)) { jls_wr_close(wr); unlink(path); return 0; }
    size_t nbytes = (size_t) ((total * bits + 7) / 8);
    uint8_t * data = calloc(nbytes + 8, 1);      /* constant (zero) data: blocks of 8 bits or less are omitted automatically */
    if (bits > 8) { jls_wr_fsr_omit_data(wr, 5, 1); }
    printf("replay: %u-bit signal, %lld samples (final block holds %u), omission %s\n", bits, (long long) total, tail, bits > 8 ? "requested" : "automatic (constant data)");
    fflush(stdout);
    int32_t rc = jls_wr_fsr(wr, 5, 0, data, (uint32_t) total);
    VG_CHECK(rc == 0, "write fails rc=%d", rc);
    jls_wr_close(wr);
    struct jls_rd_s * rd;
    if (jls_rd_open(&rd, path)) { unlink(path); VG_FAIL("the closed file does not open"); }
    int64_t n = -1;
    jls_rd_fsr_length(rd, 5, &n);
    printf("reader reports %lld samples\n", (long long) n);
    VG_CHECK(n == total, "C15: omission changed the reported length: %lld written, %lld reported", (long long) total, (long long) n);
    jls_rd_close(rd);
    unlink(path); free(data);
    return 0;
}

int main(void) { return VG_REPLAY_ENTRY(); }
