/* preamble for msg_ring_buffer.c : specification predicates (C08) */
#ifndef VG_MRB_PRE_H
#define VG_MRB_PRE_H
#include <stdint.h>
#include <stddef.h>
#include "jls/msg_ring_buffer.h"

#ifndef VG_MRB_MAX
#define VG_MRB_MAX   (1u << 30)     /* stated bound on the capacity; the product uses 2^26 */
#endif
#define VG_MRB_K     10u            /* usable capacity = buf_size - VG_MRB_K (largest size that fits an empty queue) */

/* basic representation invariant */
#define VG_MRB_WF0(s) ( (s)->buf_size >= 16u && (s)->buf_size <= VG_MRB_MAX      \
     && (s)->head < (s)->buf_size && (s)->tail < (s)->buf_size                    \
     && (s)->head + 4u <= (s)->buf_size && (s)->tail + 4u <= (s)->buf_size )

/* is byte offset o inside the live span [tail,head) (cyclically) */
static inline _Bool vg_mrb_live(uint32_t head, uint32_t tail, uint32_t buf_size, uint32_t o) {
    if (o >= buf_size) return 0;
    if (tail <= head) return (tail <= o) && (o < head);
    return (o >= tail) || (o < head);
}
static inline uint32_t vg_rd32(const uint8_t * p) {
    return ((uint32_t) p[0]) | (((uint32_t) p[1]) << 8) | (((uint32_t) p[2]) << 16) | (((uint32_t) p[3]) << 24);
}
/* effective tail: offset of the oldest record (tail itself, or 0 when tail points at a wrap marker) */
static inline uint32_t vg_mrb_teff(const struct jls_mrb_s * s) {
    return (vg_rd32(s->buf + s->tail) >= 0x80000000u) ? 0u : s->tail;
}
/* the oldest record is well formed: the instance of the record-chain invariant that peek/pop rely on.
 * (every record was laid out by jls_mrb_alloc: size prefix, payload inside the live span, room for a marker behind) */
static inline _Bool vg_mrb_first_ok(const struct jls_mrb_s * s) {
    if (!VG_MRB_WF0(s)) return 0;
    if (s->head == s->tail) return 1;
    uint32_t t = s->tail;
    if (vg_rd32(s->buf + t) >= 0x80000000u) {       /* wrap marker at tail: the live span wraps, the record sits at 0 */
        if (!(s->head < s->tail)) return 0;
        t = 0;
        if (vg_rd32(s->buf) >= 0x80000000u) return 0;
        return (uint64_t) 4 + vg_rd32(s->buf) <= s->head;   /* the record behind the wrap ends at or before head */
    }
    uint32_t z = vg_rd32(s->buf + t);
    uint64_t e = (uint64_t) t + 4 + z;
    if (t < s->head) return e <= s->head;           /* ends at or before head */
    return e + 4 <= s->buf_size;                    /* record in front of the wrap: stays inside the buffer */
}
extern uint32_t vg_o;       /* skolem witness: an arbitrary byte offset of the buffer */
#endif
