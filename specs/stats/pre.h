/* preamble for src/statistics.c (C20) */
#ifndef VG_STATS_PRE_H
#define VG_STATS_PRE_H
#include <stdint.h>
#include <math.h>
#include <float.h>
#include "jls/statistics.h"

#define VG_MAG   0x1p500          /* stated magnitude bound: squares and k*diff^2 stay finite */
#define VG_KMAX  (1ull << 52)     /* stated count bound: k converts to double exactly */

static inline _Bool vg_fin(double x) { return !isnan(x) && !isinf(x); }
static inline _Bool vg_bounded(double x) { return vg_fin(x) && x <= VG_MAG && x >= -VG_MAG; }
/* representation invariant of a non-empty accumulator */
static inline _Bool vg_stats_wf(const struct jls_statistics_s * s) {
    return s->k >= 1 && s->k < VG_KMAX && vg_bounded(s->mean) && vg_bounded(s->min) && vg_bounded(s->max)
        && vg_fin(s->s) && s->s >= 0.0 && s->s <= VG_MAG && s->min <= s->mean && s->mean <= s->max;
}
/* the empty accumulator as produced by jls_statistics_reset */
static inline _Bool vg_stats_empty(const struct jls_statistics_s * s) {
    return s->k == 0 && s->mean == 0.0 && s->s == 0.0 && s->min == DBL_MAX && s->max == -DBL_MAX;
}
#define VG_LEN_MAX (1ull << 24)   /* stated input-length bound (object size); the induction is unbounded */
extern uint64_t vg_imin, vg_imax;   /* ghost: index of a sample attaining the minimum / maximum */
extern uint64_t vg_k;       /* skolem witness: an arbitrary sample index */
extern struct jls_statistics_s vg_a0, vg_b0;
#endif
