/* preamble for the iteration units of src/reader.c (C13 user data, C11 annotations) */
#ifndef VG_RDUSER_PRE_H
#define VG_RDUSER_PRE_H
#include "../corerd/pre.h"
#endif
