#include "jls.h"
#include "jls/writer.h"
#include "jls/reader.h"
#include <stdio.h>
#include <stdlib.h>
#include <string.h>
#include <unistd.h>
/* usage: f17 <bits 1|4> <first_sample_id> <N> */
static int getbits(const uint8_t*b, long i, int bits){ long bit=i*bits; return (b[bit/8]>>(bit%8)) & ((1<<bits)-1); }
int main(int argc,char**argv){
  int bits=atoi(argv[1]); long first=atol(argv[2]); long N=atol(argv[3]);
  const char*path="/tmp/p1/f17.jls"; unlink(path);
  struct jls_wr_s*wr; if(jls_wr_open(&wr,path)) return 2;
  struct jls_source_def_s src={.source_id=1,.name="s",.vendor="v",.model="m",.version="1",.serial_number="1"};
  jls_wr_source_def(wr,&src);
  struct jls_signal_def_s sig={.signal_id=5,.source_id=1,.signal_type=JLS_SIGNAL_TYPE_FSR,.data_type=bits==1?JLS_DATATYPE_U1:JLS_DATATYPE_U4,.sample_rate=1000,
    .samples_per_data=1024,.sample_decimate_factor=256,.entries_per_summary=64,.summary_decimate_factor=4,.name="x",.units="u"};
  if(jls_wr_signal_def(wr,&sig)){printf("def fail\n");return 2;}
  uint8_t*data=calloc(N*bits/8+16,1); srand(7); for(long i=0;i<N*bits/8+8;i++) data[i]=rand();
  if(jls_wr_fsr(wr,5,first,data,N)){printf("wr fail\n");return 2;}
  jls_wr_close(wr);
  struct jls_rd_s*rd; if(jls_rd_open(&rd,path)) return 2;
  int64_t len; jls_rd_fsr_length(rd,5,&len); if(len!=N){printf("len %ld != %ld\n",(long)len,N);}
  long bad=0,tot=0; uint8_t*out=malloc(N*bits/8+64);
  long starts[]={0,1,3,7,8,9,1000,1017,1023,1024,1025,2047,2049,3071,4090};
  for(unsigned s=0;s<sizeof(starts)/sizeof(starts[0]);s++){ long st=starts[s]; if(st>=N)continue;
    for(long l=1; st+l<=N && l<2200; l+= (l<40?1:37)){
      memset(out,0xAA,N*bits/8+64);
      int rc=jls_rd_fsr(rd,5,st,out,l); tot++;
      int ok=(rc==0); if(ok) for(long i=0;i<l;i++) if(getbits(out,i,bits)!=getbits(data,st+i,bits)){ok=0; if(bad<5)printf("mismatch start=%ld len=%ld at i=%ld rc=%d\n",st,l,i,rc);break;}
      if(!ok){ if(rc&&bad<5)printf("rc=%d start=%ld len=%ld\n",rc,st,l); bad++;}
    }}
  printf("bits=%d first=%ld N=%ld windows=%ld bad=%ld\n",bits,first,N,tot,bad);
  jls_rd_close(rd); return bad?1:0; }
