/* preamble for the jls_core_fsr read-window units */
#ifndef VG_RDFSR_PRE_H
#define VG_RDFSR_PRE_H
#include <stdint.h>
#include <stddef.h>
struct jls_core_s;
int32_t vg_model_rd_fsr_data0(struct jls_core_s * self, uint16_t signal_id, int64_t start_sample_id);
int32_t vg_model_fsr_length(struct jls_core_s * self, uint16_t signal_id, int64_t * samples);
#endif
