/* preamble for the chunk-list / head-table units over src/core.c, src/track.c, src/raw.c (C14, C05, C03a) */
#ifndef VG_COREWR_PRE_H
#define VG_COREWR_PRE_H
#include "../raw/pre.h"
#include "jls/core.h"
#include "jls/track.h"

/* heads-sync (C14): a cached list head equals the header stored in the file in every field that must never change after the first write
 * (tag, reserved, chunk_meta, payload_length, payload_prev_length = header bytes 16..27).  Instance for the witness window / witness byte index. */
static inline _Bool vg_head_sync(const struct jls_core_chunk_s * c, uint32_t k) {
    if (c->offset == 0 || c->offset != vg_hoff || k < 16 || k >= 28) return 1;
    return vg_hwin[k] == vg_hdr_byte(&c->hdr, k);
}
/* ... and the link field item_prev (bytes 8..15), which is written once */
static inline _Bool vg_head_sync_prev(const struct jls_core_chunk_s * c, uint32_t k) {
    if (c->offset == 0 || c->offset != vg_hoff || k < 8 || k >= 16) return 1;
    return vg_hwin[k] == vg_hdr_byte(&c->hdr, k);
}
/* a cached chunk lies completely inside the file */
#define VG_CHUNK_IN_FILE(c, raw) ((c)->offset >= 16 && (c)->offset <= VG_FILE_MAX && (c)->offset + 32 + (int64_t) vg_disk_size((c)->hdr.payload_length) <= (raw)->backend.fend && (c)->hdr.payload_length <= VG_PAYLOAD_MAX)
/* the witness header window holds the little-endian image of header h */
#define VG_HWIN_IS(h) (vg_hwin[0] == vg_hdr_byte((h), 0) && vg_hwin[1] == vg_hdr_byte((h), 1) && vg_hwin[2] == vg_hdr_byte((h), 2) && vg_hwin[3] == vg_hdr_byte((h), 3) && vg_hwin[4] == vg_hdr_byte((h), 4) && vg_hwin[5] == vg_hdr_byte((h), 5) && vg_hwin[6] == vg_hdr_byte((h), 6) && vg_hwin[7] == vg_hdr_byte((h), 7) && vg_hwin[8] == vg_hdr_byte((h), 8) && vg_hwin[9] == vg_hdr_byte((h), 9) && vg_hwin[10] == vg_hdr_byte((h), 10) && vg_hwin[11] == vg_hdr_byte((h), 11) && vg_hwin[12] == vg_hdr_byte((h), 12) && vg_hwin[13] == vg_hdr_byte((h), 13) && vg_hwin[14] == vg_hdr_byte((h), 14) && vg_hwin[15] == vg_hdr_byte((h), 15) && vg_hwin[16] == vg_hdr_byte((h), 16) && vg_hwin[17] == vg_hdr_byte((h), 17) && vg_hwin[18] == vg_hdr_byte((h), 18) && vg_hwin[19] == vg_hdr_byte((h), 19) && vg_hwin[20] == vg_hdr_byte((h), 20) && vg_hwin[21] == vg_hdr_byte((h), 21) && vg_hwin[22] == vg_hdr_byte((h), 22) && vg_hwin[23] == vg_hdr_byte((h), 23) && vg_hwin[24] == vg_hdr_byte((h), 24) && vg_hwin[25] == vg_hdr_byte((h), 25) && vg_hwin[26] == vg_hdr_byte((h), 26) && vg_hwin[27] == vg_hdr_byte((h), 27) && vg_hwin[28] == vg_hdr_byte((h), 28) && vg_hwin[29] == vg_hdr_byte((h), 29) && vg_hwin[30] == vg_hdr_byte((h), 30) && vg_hwin[31] == vg_hdr_byte((h), 31))
#endif
