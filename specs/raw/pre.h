/* preamble for src/raw.c (C04, C05, C14) */
#ifndef VG_RAW_PRE_H
#define VG_RAW_PRE_H
#include <stdint.h>
#include <stddef.h>
#include "jls/format.h"
#include "bk_model.h"
#include "raw_wf.h"

/* format.h: a chunk payload is followed by zero padding and a CRC so that the next header is 8-byte aligned */
static inline uint32_t vg_disk_size(uint32_t n) { return n ? ((n + 4u + 7u) & ~7u) : 0u; }
static inline uint32_t vg_pad(uint32_t n) { return vg_disk_size(n) - n - 4u; }
#define VG_PAYLOAD_MAX 0xfffffff0u     /* largest payload for which the size on disk still fits 32 bits */
#define VG_FILE_MAX (1ll << 56)        /* stated bound on file offsets (no 64-bit overflow in offset arithmetic) */

extern const uint8_t * vg_crc_arg; extern uint32_t vg_crc_len, vg_crc_ret; extern uint64_t vg_crc_calls;
extern const struct jls_chunk_header_s * vg_hcrc_arg; extern uint32_t vg_hcrc_ret; extern uint64_t vg_hcrc_calls;
uint32_t vg_hcrc_of(const struct jls_chunk_header_s * h);

extern uint32_t vg_k;                  /* skolem witness: an arbitrary payload byte index */
/* ghost captures on entry */
/* the 16 identification bytes of the file header, copied from the table in the format description (format.h: 'jlsfmt\r\n \n \x1a  \xb2\x1c') */
static const uint8_t vg_file_id[16] = {0x6a, 0x6c, 0x73, 0x66, 0x6d, 0x74, 0x0d, 0x0a, 0x20, 0x0a, 0x20, 0x1a, 0x20, 0x20, 0xb2, 0x1c};
extern size_t vg_mem_i;                /* witness index of the memcmp/memcpy model (stubs/mem_model.c) */
extern uint32_t vg_k2;                 /* second skolem witness index */

/* little-endian image of a header field byte k (0..31), written from format.h: item_next, item_prev, tag, rsv, chunk_meta,
 * payload_length, payload_prev_length, crc32 */
static inline uint8_t vg_hdr_byte(const struct jls_chunk_header_s * h, unsigned k) {
    if (k < 8) return (uint8_t) ((h->item_next >> (8 * k)) & 0xff);
    if (k < 16) return (uint8_t) ((h->item_prev >> (8 * (k - 8))) & 0xff);
    if (k == 16) return h->tag;
    if (k == 17) return h->rsv0_u8;
    if (k < 20) return (uint8_t) ((h->chunk_meta >> (8 * (k - 18))) & 0xff);
    if (k < 24) return (uint8_t) ((h->payload_length >> (8 * (k - 20))) & 0xff);
    if (k < 28) return (uint8_t) ((h->payload_prev_length >> (8 * (k - 24))) & 0xff);
    return (uint8_t) ((h->crc32 >> (8 * (k - 28))) & 0xff);
}
#endif
