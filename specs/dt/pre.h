/* preamble for src/datatype.c (C02 exact part: sample value conversion) */
#ifndef VG_DT_PRE_H
#define VG_DT_PRE_H
#include <stdint.h>
#include <stddef.h>
#include "jls/format.h"
extern size_t vg_k;        /* skolem witness: an arbitrary sample index */
#define VG_DT_MAX (1ull << 12)   /* stated input-size bound (object size); the loop-contract induction itself is unbounded */
/* value of sample k of a packed buffer of the given type, as the double the format defines (format.h: two's complement, little endian,
 * u1 bit k%8 of byte k/8, 4-bit low nibble first) */
static inline double vg_sample_f64(const void * src, uint32_t dt, size_t k) {
    const uint8_t * s = (const uint8_t *) src;
    switch (dt & 0xffff) {
        case JLS_DATATYPE_U1: return (double) ((s[k >> 3] >> (k & 7)) & 1);
        case JLS_DATATYPE_U4: return (double) ((s[k >> 1] >> ((k & 1) * 4)) & 0x0f);
        case JLS_DATATYPE_I4: { uint8_t v = (s[k >> 1] >> ((k & 1) * 4)) & 0x0f; return (double) ((v & 8) ? (int) v - 16 : (int) v); }
        case JLS_DATATYPE_U8: return (double) s[k];
        case JLS_DATATYPE_I8: return (double) (int8_t) s[k];
        case JLS_DATATYPE_U16: return (double) (uint16_t) (s[2 * k] | (s[2 * k + 1] << 8));
        case JLS_DATATYPE_I16: return (double) (int16_t) (uint16_t) (s[2 * k] | (s[2 * k + 1] << 8));
        case JLS_DATATYPE_U32: return (double) ((const uint32_t *) src)[k];
        case JLS_DATATYPE_I32: return (double) ((const int32_t *) src)[k];
        case JLS_DATATYPE_U64: return (double) ((const uint64_t *) src)[k];
        case JLS_DATATYPE_I64: return (double) ((const int64_t *) src)[k];
        case JLS_DATATYPE_F32: return (double) ((const float *) src)[k];
        default: return ((const double *) src)[k];
    }
}
/* call-free forms for loop invariants */
#define VG_S_U1(src, k) ((double) ((((const uint8_t *) (src))[(k) >> 3] >> ((k) & 7)) & 1))
#define VG_S_U4(src, k) ((double) ((((const uint8_t *) (src))[(k) >> 1] >> (((k) & 1) * 4)) & 0x0f))
#define VG_S_I4(src, k) ((double) (((((const uint8_t *) (src))[(k) >> 1] >> (((k) & 1) * 4)) & 0x08) ? (int) ((((const uint8_t *) (src))[(k) >> 1] >> (((k) & 1) * 4)) & 0x0f) - 16 : (int) ((((const uint8_t *) (src))[(k) >> 1] >> (((k) & 1) * 4)) & 0x0f)))
static inline _Bool vg_dt_summarisable(uint32_t dt) {
    uint32_t t = dt & 0xffff;
    return t == JLS_DATATYPE_U1 || t == JLS_DATATYPE_U4 || t == JLS_DATATYPE_I4 || t == JLS_DATATYPE_U8 || t == JLS_DATATYPE_I8 || t == JLS_DATATYPE_U16 || t == JLS_DATATYPE_I16
        || t == JLS_DATATYPE_U32 || t == JLS_DATATYPE_I32 || t == JLS_DATATYPE_U64 || t == JLS_DATATYPE_I64 || t == JLS_DATATYPE_F32 || t == JLS_DATATYPE_F64;
}
#endif
