/* bounded harness for jls_core_fsr_length: index levels 1..3 on disk (any subset of head offsets), index chunks with 1..3 entries.
 * File model: the last entry of the index chunk at level l is the offset of the last index chunk at level l-1; the last entry of the last
 * level-1 index is the offset of the last DATA chunk (0 = omitted); the level-1 INDEX is immediately followed by its SUMMARY.
 * C01: the reported length is (first id after the last stored sample) - (first sample id): taken from the last data chunk when it is
 * stored, from the level-1 summary (entries * sample_decimate_factor) when it is omitted. */
#include "vg.h"
#include <stdlib.h>
#ifndef VG_SIG
#define VG_SIG 5
#endif
#define VG_SDF 16
int32_t nondet_i32(void); int64_t nondet_i64(void); uint32_t nondet_u32(void); _Bool nondet_bool(void);
static int64_t vg_pos; static int vg_io_error, vg_reads, vg_wrong_read;
static int vg_top;
static int64_t vg_head[4];             /* head offset per level (0 = none) */
static int64_t vg_last[4];             /* offset of the last chunk at level l (vg_last[top] = head of the top level) */
static int64_t vg_sum_ts, vg_data_ts; static uint32_t vg_sum_count, vg_data_count;
static int vg_after_index1;            /* the raw position is right after the level-1 index (its summary follows) */
static int vg_dummy_raw;

/* A-TSRANGE: stored sample ids are below 2^60 in magnitude */
static int64_t vg_ts(void) { int64_t t = nondet_i64(); __CPROVER_assume(t > -(1ll << 60) && t < (1ll << 60)); return t; }

int32_t jls_raw_chunk_seek(struct jls_raw_s * self, int64_t offset) {
    (void) self;
    if (nondet_bool()) { vg_io_error++; return JLS_ERROR_IO; }
    vg_pos = offset; vg_after_index1 = 0;
    return 0;
}
int32_t vg_model_rd_chunk(struct jls_core_s * self) {
    if (nondet_bool()) { vg_io_error++; return JLS_ERROR_MESSAGE_INTEGRITY; }
    vg_reads++;
    free(self->buf->start);
    uint8_t * p = malloc(sizeof(struct jls_fsr_index_s) + 3 * sizeof(int64_t) + 8);
    __CPROVER_assume(p != NULL);
    self->buf->start = p; self->buf->cur = p;
    struct jls_fsr_index_s * r = (struct jls_fsr_index_s *) p;
    r->header.rsv16 = 0;
    if (vg_after_index1) {                 /* the level-1 summary */
        r->header.timestamp = vg_sum_ts; r->header.entry_count = vg_sum_count; r->header.entry_size_bits = 128;
        self->buf->length = sizeof(struct jls_fsr_index_s) + 3 * sizeof(int64_t);
        vg_after_index1 = 0;
    } else if (vg_top >= 1 && vg_pos == vg_last[1] && vg_pos != 0) {       /* last level-1 index: its last entry is the last data chunk */
        uint32_t count = nondet_u32(); __CPROVER_assume(count >= 1 && count <= 3);
        r->header.timestamp = vg_ts(); r->header.entry_count = count; r->header.entry_size_bits = 64;
        r->offsets[count - 1] = vg_last[0];
        self->buf->length = sizeof(struct jls_fsr_index_s) + count * sizeof(int64_t);
        vg_after_index1 = 1;
    } else if (vg_top >= 2 && vg_pos == vg_last[2] && vg_pos != 0) {
        uint32_t count = nondet_u32(); __CPROVER_assume(count >= 1 && count <= 3);
        r->header.timestamp = vg_ts(); r->header.entry_count = count; r->header.entry_size_bits = 64;
        r->offsets[count - 1] = vg_last[1];
        self->buf->length = sizeof(struct jls_fsr_index_s) + count * sizeof(int64_t);
    } else if (vg_top >= 3 && vg_pos == vg_last[3] && vg_pos != 0) {
        uint32_t count = nondet_u32(); __CPROVER_assume(count >= 1 && count <= 3);
        r->header.timestamp = vg_ts(); r->header.entry_count = count; r->header.entry_size_bits = 64;
        r->offsets[count - 1] = vg_last[2];
        self->buf->length = sizeof(struct jls_fsr_index_s) + count * sizeof(int64_t);
    } else if (vg_pos == vg_last[0] && vg_pos != 0) {      /* the last data chunk */
        r->header.timestamp = vg_data_ts; r->header.entry_count = vg_data_count; r->header.entry_size_bits = 8;
        self->buf->length = sizeof(struct jls_fsr_index_s) + 8;
    } else {
        vg_wrong_read++;
        r->header.timestamp = vg_ts(); r->header.entry_count = 1; r->header.entry_size_bits = 64; r->offsets[0] = 0;
        self->buf->length = sizeof(struct jls_fsr_index_s) + 8;
    }
    self->buf->end = p + self->buf->length;
    return 0;
}

void h_fsr_length(void) {
    struct jls_core_s * c = malloc(sizeof(*c));
    __CPROVER_assume(c != NULL);
    struct jls_buf_s * b = malloc(sizeof(*b)); __CPROVER_assume(b != NULL);
    b->start = malloc(8); __CPROVER_assume(b->start != NULL);
    struct jls_core_fsr_s * tf = malloc(sizeof(*tf)); __CPROVER_assume(tf != NULL);
    __CPROVER_assume(tf->signal_length == -1);     /* as jls_fsr_open leaves it */
    struct jls_core_signal_s * si = &c->signal_info[VG_SIG];
    int64_t off0;
    __CPROVER_assume(c->buf == b && c->raw == (struct jls_raw_s *) &vg_dummy_raw
        && si->signal_def.signal_id == VG_SIG && si->signal_def.signal_type == JLS_SIGNAL_TYPE_FSR && si->chunk_def.offset == 64
        && si->signal_def.sample_decimate_factor == VG_SDF && si->signal_def.sample_id_offset == off0);
    si->track_fsr = tf;
    int64_t * heads = si->tracks[JLS_TRACK_TYPE_FSR].head_offsets;
    __CPROVER_assume(heads[4] == 0 && heads[5] == 0 && heads[6] == 0 && heads[7] == 0 && heads[8] == 0 && heads[9] == 0 && heads[10] == 0 && heads[11] == 0
        && heads[12] == 0 && heads[13] == 0 && heads[14] == 0 && heads[15] == 0);
    /* a well-formed closed file: a level exists only when the levels below it exist */
    __CPROVER_assume((heads[3] == 0 || heads[2] != 0) && (heads[2] == 0 || heads[1] != 0) && (heads[1] == 0 || heads[0] != 0));
    __CPROVER_assume(heads[0] >= 0 && heads[1] >= 0 && heads[2] >= 0 && heads[3] >= 0);
    int top = -1;
    if (heads[3]) top = 3; else if (heads[2]) top = 2; else if (heads[1]) top = 1; else if (heads[0]) top = 0;
    vg_top = top;
    for (int l = 0; l < 4; ++l) { vg_head[l] = heads[l]; }
    /* offsets of the last chunk per level: the top level has a single chunk (its head); below it any distinct positive offsets */
    int64_t l0, l1, l2;
    __CPROVER_assume(l0 >= 0 && l1 > 0 && l2 > 0 && l0 != l1 && l0 != l2 && l1 != l2 && l0 < (1ll << 50) && l1 < (1ll << 50) && l2 < (1ll << 50));
    vg_last[3] = heads[3]; vg_last[2] = (top == 2) ? heads[2] : l2; vg_last[1] = (top == 1) ? heads[1] : l1; vg_last[0] = (top == 0) ? heads[0] : l0;
    __CPROVER_assume(top < 3 || (heads[3] != vg_last[2] && heads[3] != vg_last[1] && heads[3] != vg_last[0]));
    __CPROVER_assume(top < 2 || (vg_last[2] != vg_last[1] && vg_last[2] != vg_last[0]));
    __CPROVER_assume(top < 1 || vg_last[1] != vg_last[0]);
    int64_t sts, dts; uint32_t sc, dc;
    __CPROVER_assume(off0 > -(1ll << 59) && off0 < (1ll << 59) && sts >= off0 && sts < off0 + (1ll << 58) && dts >= off0 && dts < off0 + (1ll << 58) && sc >= 1 && sc <= (1u << 24) && dc >= 1 && dc <= (1u << 25));
    vg_sum_ts = sts; vg_sum_count = sc; vg_data_ts = dts; vg_data_count = dc;
    vg_pos = 0; vg_io_error = 0; vg_reads = 0; vg_wrong_read = 0; vg_after_index1 = 0;
    int64_t samples = -7;
    int32_t rc = jls_core_fsr_length(c, VG_SIG, &samples);
    if (vg_io_error == 0) {
        __CPROVER_assert(rc == 0, "C01: the length of a readable signal is reported");
        if (top < 0) { __CPROVER_assert(samples == 0, "a signal without data has length 0"); }
        else if (vg_last[0] != 0) { __CPROVER_assert(samples == dts + (int64_t) dc - off0, "C01: length = end of the last stored block - first sample id"); }
        else if (top >= 1) { __CPROVER_assert(samples == sts + (int64_t) sc * VG_SDF - off0, "C01/C15: with the last block omitted the length comes from the level-1 summary"); }
    }
    VG_REACH(length_returns);
    if (rc == 0 && top == 3 && vg_last[0] != 0) { VG_REACH(length_three_levels); }
    if (rc == 0 && top == 1 && vg_last[0] == 0) { VG_REACH(length_last_block_omitted); }
}
