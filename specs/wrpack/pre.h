#ifndef VG_WRPACK_PRE_H
#define VG_WRPACK_PRE_H
#include <stdint.h>
#include <stddef.h>
struct jls_core_fsr_s;
int32_t vg_model_summary1(struct jls_core_fsr_s * self, int64_t pos);
#endif
