#include "jls.h"
#include "jls/writer.h"
#include "jls/reader.h"
#include "jls/copy.h"
#include "jls/raw.h"
#include <stdio.h>
#include <stdlib.h>
#include <string.h>
#include <unistd.h>
/* cp <cut>: write a small f32 file, cut <cut> bytes off its end (an original that was left unclosed, ending in a partial chunk), copy it */
int main(int argc,char**argv){ long cut=atol(argv[1]); const char*src="/tmp/p1/cp_src.jls",*dst="/tmp/p1/cp_dst.jls"; unlink(src); unlink(dst);
  struct jls_wr_s*wr; if(jls_wr_open(&wr,src)) return 2;
  struct jls_source_def_s s={.source_id=1,.name="s",.vendor="v",.model="m",.version="1",.serial_number="1"}; jls_wr_source_def(wr,&s);
  struct jls_signal_def_s sig={.signal_id=5,.source_id=1,.signal_type=JLS_SIGNAL_TYPE_FSR,.data_type=JLS_DATATYPE_F32,.sample_rate=1000,.name="x",.units="u"};
  if(jls_wr_signal_def(wr,&sig)) return 2;
  static float d[300000]; for(int i=0;i<300000;i++) d[i]=(float)(i%1000);
  if(jls_wr_fsr_f32(wr,5,0,d,300000)) return 2; jls_wr_flush(wr);
  { FILE*a=fopen(src,"rb"); FILE*b=fopen("/tmp/p1/cp_src2.jls","wb"); int c; while((c=fgetc(a))!=EOF) fputc(c,b); fclose(a); fclose(b); } jls_wr_close(wr); src="/tmp/p1/cp_src2.jls";
  FILE*f=fopen(src,"rb"); fseek(f,0,SEEK_END); long sz=ftell(f); fclose(f); if(cut) truncate(src,sz-cut);
  int32_t rc=jls_copy(src,dst,NULL,NULL,NULL,NULL); printf("cut=%ld copy rc=%d\n",cut,rc);
  /* is the destination a properly closed file?  a closed file ends with an END chunk and its header records the length */
  struct jls_raw_s*raw; int32_t orc=jls_raw_open(&raw,dst,"r"); printf("raw open of the copy rc=%d (%s)\n",orc, orc==0?"closed":"NOT properly closed"); if(orc==0||orc==JLS_ERROR_TRUNCATED) jls_raw_close(raw);
  struct jls_rd_s*rd; if(0==jls_rd_open(&rd,dst)){ int64_t n=0; jls_rd_fsr_length(rd,5,&n); printf("copy length %ld\n",(long)n); jls_rd_close(rd);} else printf("copy does not open\n");
  return (rc!=0 || orc!=0); }
