/* A-LIBC (witness form): memcpy / memset / memmove with a symbolic length are modelled in O(1):
 * the destination range becomes arbitrary except at one arbitrary (skolem) byte index vg_mem_i, where it holds the
 * specified value.  Sound over-approximation of the C library functions: every fact proved about the witness byte
 * holds for every byte; nothing else about the destination may be relied upon.  Range validity is asserted. */
#include <stddef.h>
#include <stdint.h>
size_t vg_mem_i;      /* never assigned */
void * memcpy(void * dst, const void * src, size_t n) {
    if (n) {
        __CPROVER_assert(__CPROVER_r_ok(src, n), "memcpy source readable");
        __CPROVER_assert(__CPROVER_w_ok(dst, n), "memcpy destination writable");
        uint8_t b = (vg_mem_i < n) ? ((const uint8_t *) src)[vg_mem_i] : 0;
        __CPROVER_havoc_slice(dst, n);
        if (vg_mem_i < n) { ((uint8_t *) dst)[vg_mem_i] = b; }
    }
    return dst;
}
void * memmove(void * dst, const void * src, size_t n) { return memcpy(dst, src, n); }
void * memset(void * dst, int c, size_t n) {
    if (n) {
        __CPROVER_assert(__CPROVER_w_ok(dst, n), "memset destination writable");
        __CPROVER_havoc_slice(dst, n);
        if (vg_mem_i < n) { ((uint8_t *) dst)[vg_mem_i] = (uint8_t) c; }
    }
    return dst;
}
int nondet_int(void);
/* memcmp: a zero result means the ranges agree (at the arbitrary witness index); a non-zero result says nothing */
int memcmp(const void * a, const void * b, size_t n) {
    int r = nondet_int();
    if (n) {
        __CPROVER_assert(__CPROVER_r_ok(a, n) && __CPROVER_r_ok(b, n), "memcmp ranges readable");
        __CPROVER_assume(r != 0 || vg_mem_i >= n || ((const uint8_t *) a)[vg_mem_i] == ((const uint8_t *) b)[vg_mem_i]);
    }
    return r;
}
size_t nondet_size_t(void);
/* strlen: the index of the first NUL: s[n] == 0 and no NUL before it (at the arbitrary witness index) */
size_t strlen(const char * s) {
    size_t n = nondet_size_t();
    __CPROVER_assume(n < (1ull << 31) && __CPROVER_r_ok(s, n + 1) && s[n] == 0 && (vg_mem_i >= n || s[vg_mem_i] != 0));
    return n;
}
