/* preamble for src/wr_fsr.c (C09 gaps/overlaps, C01 packing, C15 omission, C10) */
#ifndef VG_WRFSR_PRE_H
#define VG_WRFSR_PRE_H
#include <stdint.h>
#include <stddef.h>
#include <math.h>
#include "jls/format.h"
#include "jls/core.h"

static inline _Bool vg_bits_ok(uint32_t bits) { return bits == 1 || bits == 4 || bits == 8 || bits == 16 || bits == 24 || bits == 32 || bits == 64; }
/* n * bits for the seven supported widths, written with shifts (cheap for SAT, identical value) */
static inline uint64_t vg_nbits(uint64_t n, uint32_t bits) {
    return bits == 1 ? n : bits == 4 ? (n << 2) : bits == 8 ? (n << 3) : bits == 16 ? (n << 4) : bits == 24 ? ((n << 4) + (n << 3)) : bits == 32 ? (n << 5) : (n << 6);
}
#define VG_FBITS(self) (((self)->parent->signal_def.data_type >> 8) & 0xffu)
#ifndef VG_KF31
#define VG_KF31 0          /* 1 in the known-finding variant unit: states the clause that F31 violates */
#endif
#define VG_ID_MAX (1ll << 60)          /* stated bound on sample ids */
#define VG_N_MAX (1u << 28)            /* stated bound on samples per call */

/* recording of what jls_wr_fsr_data forwards to the block packer (wr_data_inner) */
#define VG_MODE_DATA 0
#define VG_MODE_FILL 1
#define VG_MODE_SHIFTED 2
extern int vg_mode;                    /* what the caller is forwarding right now (set by ghost statements in jls_wr_fsr_data) */
extern uint64_t vg_fw_total;           /* samples forwarded so far */
extern uint64_t vg_fw_fill, vg_fw_data, vg_fw_shifted;   /* ... by kind */
extern uint64_t vg_fw_calls;
extern const void * vg_fw_data_ptr; extern uint32_t vg_fw_data_n;   /* pointer/count of the (single) direct forward of caller data */
extern size_t vg_wb;                   /* skolem witness: an arbitrary byte index of the fill buffer */
extern int64_t vg_next0;               /* ghost: next expected sample id on entry */
/* C15 recording */
extern uint64_t vg_s1_calls, vg_wd_calls; extern int64_t vg_s1_pos, vg_s1_ts, vg_tell; extern uint32_t vg_s1_count, vg_wd_len; extern uint8_t vg_s1_byte, vg_first_byte;
extern const uint8_t * vg_wd_payload; extern uint16_t vg_wd_signal; extern int vg_wd_track;
extern size_t vg_wb2;   /* skolem witness: an arbitrary byte of the sample block */
#endif
