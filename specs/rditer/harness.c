/* harness for jls_core_annotations / jls_core_user_data -- included at the end of the injected reader.c.
 * Callees outside reader.c are models: the chunk list is a chain of up to VG_CHAIN chunks with arbitrary headers and payloads;
 * jls_core_rd_chunk may move the payload buffer (as the real one does when it has to grow it).
 * Loops are bounded by the chain length (--unwinding-assertions): complete for chains of that length; the per-iteration facts
 * (what is delivered to the callback) do not depend on the position in the chain. */
#include "vg.h"
#include <stdlib.h>
#ifndef VG_CHAIN
#define VG_CHAIN 3
#endif
int32_t nondet_i32(void); uint8_t nondet_u8(void); uint16_t nondet_u16(void); uint32_t nondet_u32(void); int64_t nondet_i64(void); _Bool nondet_bool(void);
static struct jls_core_s * vg_core;
static int64_t vg_pos;            /* raw chunk position */
static int64_t vg_seek_ts; static int vg_seek_calls; static uint16_t vg_seek_signal; static int vg_seek_track; static uint8_t vg_seek_level;
static unsigned vg_reads, vg_cbs;
static int vg_dummy_raw;
static int64_t vg_cur_payload_ts;   /* timestamp stored in the annotation payload just read */

int32_t jls_core_signal_validate(struct jls_core_s * self, uint16_t signal_id) {
    if (signal_id >= JLS_SIGNAL_COUNT) return JLS_ERROR_PARAMETER_INVALID;
    if (self->signal_info[signal_id].signal_def.signal_id != signal_id) return JLS_ERROR_NOT_FOUND;
    return 0;
}
int32_t jls_core_ts_seek(struct jls_core_s * self, uint16_t signal_id, uint8_t level, enum jls_track_type_e track_type, int64_t timestamp) {
    (void) self;
    vg_seek_calls++; vg_seek_signal = signal_id; vg_seek_level = level; vg_seek_track = track_type; vg_seek_ts = timestamp;
    int32_t rc = nondet_i32();
    if (rc) return rc;
    vg_pos = nondet_i64(); __CPROVER_assume(vg_pos > 0);
    return 0;
}
int64_t jls_raw_chunk_tell(struct jls_raw_s * self) { (void) self; return vg_pos; }
int32_t jls_raw_chunk_seek(struct jls_raw_s * self, int64_t offset) { (void) self; if (offset <= 0) return JLS_ERROR_IO; vg_pos = offset; return 0; }
int32_t jls_core_rd_chunk(struct jls_core_s * self) {
    if (nondet_bool()) return JLS_ERROR_MESSAGE_INTEGRITY;
    vg_reads++;
    self->chunk_cur.offset = vg_pos;
    self->chunk_cur.hdr.tag = nondet_u8(); self->chunk_cur.hdr.chunk_meta = nondet_u16();
    self->chunk_cur.hdr.item_next = (vg_reads >= VG_CHAIN) ? 0 : (uint64_t) nondet_i64();
    uint32_t n = nondet_u32(); __CPROVER_assume(n >= sizeof(struct jls_annotation_s) && n <= 64);
    self->chunk_cur.hdr.payload_length = n;
    /* the payload buffer may have been reallocated: a fresh block, the old one is gone */
    if (nondet_bool()) { free(self->buf->start); self->buf->start = malloc(64); __CPROVER_assume(self->buf->start != NULL); }
    self->buf->cur = self->buf->start; self->buf->length = n; self->buf->end = self->buf->start + n;
    vg_cur_payload_ts = ((struct jls_annotation_s *) self->buf->start)->timestamp;
    __CPROVER_assume(vg_cur_payload_ts > -(1ll << 61) && vg_cur_payload_ts < (1ll << 61));    /* A-TSRANGE: stored timestamps are below 2^61 in magnitude */
    return 0;
}
void jls_core_f64_buf_free(struct jls_core_f64_buf_s * b) { (void) b; }

static struct jls_core_s * vg_mk(void) {
    struct jls_core_s * c = malloc(sizeof(*c));
    __CPROVER_assume(c != NULL);
    c->raw = (struct jls_raw_s *) &vg_dummy_raw;
    c->buf = malloc(sizeof(*c->buf)); __CPROVER_assume(c->buf != NULL);
    c->buf->start = malloc(64); __CPROVER_assume(c->buf->start != NULL);
    c->buf->alloc_size = 64; c->buf->cur = c->buf->start; c->buf->end = c->buf->start; c->buf->length = 0;
    vg_core = c; vg_reads = 0; vg_cbs = 0; vg_seek_calls = 0;
    return c;
}

static int64_t vg_req_ts; static int64_t vg_off0;
static int32_t vg_anno_cbk(void * user_data, const struct jls_annotation_s * a) {
    (void) user_data;
    vg_cbs++;
    __CPROVER_assert((const uint8_t *) a == vg_core->buf->start, "C11: the callback receives the payload of the chunk just read");
    __CPROVER_assert(vg_core->chunk_cur.hdr.tag == JLS_TAG_TRACK_ANNOTATION_DATA, "C11: only annotation data chunks are delivered");
    __CPROVER_assert(a->timestamp == vg_cur_payload_ts - vg_off0, "C11: the delivered timestamp is the stored one minus the sample-id offset, nothing else is altered");
    return nondet_bool() ? 1 : 0;
}
void h_rd_annotations(void) {
    struct jls_core_s * c = vg_mk();
#ifndef VG_SIG
#define VG_SIG 200
#endif
    uint16_t signal_id = VG_SIG; int64_t t;    /* a fixed id per unit variant: a symbolic index into the 1.6 MB core struct exhausts memory */
    vg_off0 = c->signal_info[signal_id].signal_def.sample_id_offset;
    __CPROVER_assume(t > -(1ll << 61) && t < (1ll << 61) && vg_off0 > -(1ll << 61) && vg_off0 < (1ll << 61));
    vg_req_ts = t;
    unsigned cbs_before_stop = 0;
    int32_t rc = jls_core_annotations(c, signal_id, t, vg_anno_cbk, NULL);
    __CPROVER_assert(vg_seek_calls == 0 || (vg_seek_ts == t + vg_off0 && vg_seek_signal == signal_id && vg_seek_level == 0 && vg_seek_track == JLS_TRACK_TYPE_ANNOTATION),
                     "C11: iteration starts at the level-0 position of exactly the requested timestamp (plus the signal's sample-id offset), for negative timestamps too");
    __CPROVER_assert(vg_cbs <= vg_reads, "C11: at most one delivery per chunk read");
    VG_REACH(annotations_returns);
    if (vg_cbs >= 2) { VG_REACH(annotations_two_delivered); }
    if (t < 0 && vg_cbs >= 1) { VG_REACH(annotations_negative_seek); }
}

static int32_t vg_ud_cbk(void * user_data, uint16_t chunk_meta, enum jls_storage_type_e storage_type, uint8_t * data, uint32_t size) {
    (void) user_data;
    vg_cbs++;
    __CPROVER_assert(data == vg_core->buf->start, "C13: the callback receives the buffer that holds the chunk just read (not a pointer from before a reallocation)");
    __CPROVER_assert(size == vg_core->chunk_cur.hdr.payload_length, "C13: user-data size is the payload length of the chunk");
    __CPROVER_assert(chunk_meta == (vg_core->chunk_cur.hdr.chunk_meta & 0x0fff) && (unsigned) storage_type == ((vg_core->chunk_cur.hdr.chunk_meta >> 12) & 0x0fu),
                     "C13: 12-bit tag and storage type are unpacked from chunk_meta");
    __CPROVER_assert(vg_core->chunk_cur.hdr.tag == JLS_TAG_USER_DATA, "C13: only USER_DATA chunks are delivered");
    __CPROVER_assert(__CPROVER_r_ok(data, size), "C13/C10: the delivered bytes lie inside a live buffer of the library");
    return nondet_bool() ? 1 : 0;
}
void h_rd_userdata(void) {
    struct jls_core_s * c = vg_mk();
    int32_t rc = jls_core_user_data(c, vg_ud_cbk, NULL);
    __CPROVER_assert(vg_cbs <= vg_reads, "C13: at most one delivery per chunk read");
    VG_REACH(userdata_returns);
    if (vg_cbs >= 2) { VG_REACH(userdata_two_delivered); }
}
