/* preamble for the signal-definition units of src/core.c (C16) */
#ifndef VG_DEF_PRE_H
#define VG_DEF_PRE_H
#include <stdint.h>
#include <stddef.h>
#include "jls/format.h"

/* the widths the format supports */
static inline _Bool vg_bits_ok(uint32_t bits) {
    return bits == 1 || bits == 4 || bits == 8 || bits == 16 || bits == 24 || bits == 32 || bits == 64;
}
/* the definition has a data type the library accepts (what jls_core_signal_def_validate checks before normalisation) */
static inline _Bool vg_dt_ok(uint32_t dt) {
    uint32_t t = dt & 0xffff;
    return t == JLS_DATATYPE_I4 || t == JLS_DATATYPE_I8 || t == JLS_DATATYPE_I16 || t == JLS_DATATYPE_I24 || t == JLS_DATATYPE_I32
        || t == JLS_DATATYPE_I64 || t == JLS_DATATYPE_U1 || t == JLS_DATATYPE_U4 || t == JLS_DATATYPE_U8 || t == JLS_DATATYPE_U16
        || t == JLS_DATATYPE_U24 || t == JLS_DATATYPE_U32 || t == JLS_DATATYPE_U64 || t == JLS_DATATYPE_F32 || t == JLS_DATATYPE_F64;
}
#define VG_BITS(def) (((def)->data_type >> 8) & 0xffu)
/* the relations of C16, written from the property statement */
static inline _Bool vg_def_normal(const struct jls_signal_def_s * d) {
    uint32_t bits = VG_BITS(d);
    if (!vg_bits_ok(bits)) return 0;
    uint32_t sdf = d->sample_decimate_factor, spd = d->samples_per_data, eps = d->entries_per_summary, sdf2 = d->summary_decimate_factor;
    /* all factors respect their minimums */
    if (!(sdf >= 10 && spd >= 10 && eps >= 10 && sdf2 >= 10)) return 0;
    /* each level-1 summary entry covers a whole number of bytes: a multiple of 256 bits of samples
     * (24-bit samples: a multiple of 256/24 = 10 samples = 240 bits = 30 whole bytes) */
    if (!(sdf % (256u / bits) == 0)) return 0;      /* see vg_lemma_bits: equivalent to the statement in bits */
    /* a block holds a whole number of summary entries */
    if (!(spd % sdf == 0 && spd >= sdf)) return 0;
    /* a summary chunk holds a whole number of blocks' entries and a whole number of next-level groups */
    if (!(eps % (spd / sdf) == 0 && eps % sdf2 == 0)) return 0;
    return 1;
}
extern _Bool vg_def_normal_flag;   /* ghost: were the parameters already normalised on entry */
/* per-width defaults, from the documented table (24-bit samples use the 32-bit row) */
static inline uint32_t vg_dflt_spd(uint32_t bits) { return bits == 64 ? 8192 : (bits == 32 || bits == 24) ? 8192 : bits == 16 ? 16384 : bits == 8 ? 32768 : 65536; }
static inline uint32_t vg_dflt_sdf(uint32_t bits) { return bits == 64 ? 128 : (bits == 32 || bits == 24) ? 128 : bits == 16 ? 256 : 1024; }
static inline uint32_t vg_dflt_eps(uint32_t bits) { return bits == 64 ? 640 : (bits == 32 || bits == 24) ? 640 : bits == 16 ? 1280 : bits == 8 ? 640 : 1280; }
/* arithmetic lemmas (ghost functions: proved once in U-def-lemmas, used through contract replacement) */
void vg_lemma_divmul(uint32_t a, uint32_t b)
__CPROVER_requires(b >= 1)
__CPROVER_assigns()
__CPROVER_ensures(((a / b) * b == a) == (a % b == 0))
__CPROVER_ensures((a / b) * b <= a && (uint64_t) (a / b) * b <= a)
{ }
void vg_lemma_muldiv(uint32_t a, uint32_t b)
__CPROVER_requires(a >= 1 && (uint64_t) a * b <= 0xffffffffu)
__CPROVER_assigns()
__CPROVER_ensures((a * b) % a == 0 && (a * b) / a == b)
{ }
/* the arithmetic core of jls_core_signal_def_align after its loop, as a pure fact about five numbers:
 * sdf = sample_decimate_factor, epd = entries_per_data (after the loop), epd0 = entries_per_data before the loop,
 * spd = samples_per_data before the final product, eps = entries_per_summary */
void vg_lemma_align_core(uint32_t sdf, uint32_t epd, uint32_t epd0, uint32_t spd, uint32_t eps, uint32_t q)
__CPROVER_requires(sdf >= 10)
__CPROVER_requires(epd >= 1 && epd <= epd0)
__CPROVER_requires(epd0 == spd / sdf)
/* q is the quotient the loop condition computed: q * epd == eps on exit */
__CPROVER_requires(q * epd == eps && (uint64_t) q * epd <= eps)
__CPROVER_assigns()
__CPROVER_ensures((sdf * epd) % sdf == 0 && (sdf * epd) >= sdf && (sdf * epd) >= 10 && (sdf * epd) <= spd)
__CPROVER_ensures((sdf * epd) / sdf == epd && eps % ((sdf * epd) / sdf) == 0)
__CPROVER_ensures(!(epd == epd0 && spd % sdf == 0) || (sdf * epd) == spd)
{ }
/* a multiple of 256/bits samples is a whole number of bytes, and a multiple of 256 bits for the power-of-two widths */
void vg_lemma_bits(uint32_t sdf, uint32_t bits)
__CPROVER_requires(vg_bits_ok(bits) && sdf <= (1u << 26) && sdf % (256u / bits) == 0)
__CPROVER_assigns()
__CPROVER_ensures(((uint64_t) sdf * bits) % 8 == 0 && (bits == 24 || ((uint64_t) sdf * bits) % 256 == 0))
{ }
void vg_lemma_mulmono(uint32_t a, uint32_t b, uint32_t c)
__CPROVER_requires(b <= c)
__CPROVER_assigns()
__CPROVER_ensures((uint64_t) a * b <= (uint64_t) a * c)
{ }
#endif
