/* bounded harness for jls_copy (C17): a source file of up to VG_K chunks (arbitrary tags, metadata, payloads of up to VG_PAY bytes), closed or
 * left unclosed (jls_raw_open reports TRUNCATED, the file may end in a partial chunk).
 * Every callee of jls_copy is outside copy.c and is modelled here: the raw reader walks the chunk list, the writer functions record what
 * they are handed.  C17 (forwarding): every readable FSR data, annotation, UTC and user-data chunk is re-issued through the writer with
 * exactly the stored fields, in file order; nothing else is issued; the destination is closed on every path that opened it. */
#include "vg.h"
#include <stdlib.h>
#ifndef VG_K
#define VG_K 2
#endif
#define VG_PAY 56
#ifndef VG_DAMAGED
#define VG_DAMAGED 0      /* 1: chunk headers / payloads of the source may be unreadable (outside C17; attic variant) */
#endif
#ifndef VG_KF34
#define VG_KF34 0
#endif
#ifndef VG_KF35
#define VG_KF35 0     /* 1 in the known-finding variant: omitted blocks must be re-created */
#endif
int32_t nondet_i32(void); int64_t nondet_i64(void); uint32_t nondet_u32(void); uint16_t nondet_u16(void); uint8_t nondet_u8(void); _Bool nondet_bool(void);
struct vg_payload { uint8_t b[VG_PAY + 8]; };
static struct { uint8_t tag; uint16_t meta; uint32_t len; _Bool hdr_bad, pay_bad; struct vg_payload pay; int64_t pos; } vg_ch[VG_K];
static int vg_k;                       /* number of chunks */
static int64_t vg_end;                 /* file size */
static int64_t vg_pos; static int vg_cur;    /* raw position; chunk whose header was read last (-1 none) */
static int vg_rd_open, vg_rd_closed, vg_wr_open, vg_wr_closed, vg_buf_freed;
static int vg_dummy_rd, vg_dummy_wr;
/* what the writer was handed, per source chunk (in order) */
static int vg_calls; static int vg_call_chunk_order_bad; static int vg_last_chunk;
static struct { int kind; uint16_t id; int64_t t1, t2; uint32_t n; float y; uint8_t at, group, st; const uint8_t * data; } vg_fw[VG_K];

static void vg_record(int kind, uint16_t id, int64_t t1, int64_t t2, uint32_t n, float y, uint8_t at, uint8_t group, uint8_t st, const uint8_t * data) {
    int k = vg_cur;
    if (k < 0 || k >= VG_K || k <= vg_last_chunk) { vg_call_chunk_order_bad++; return; }
    vg_last_chunk = k; vg_calls++;
    vg_fw[k].kind = kind; vg_fw[k].id = id; vg_fw[k].t1 = t1; vg_fw[k].t2 = t2; vg_fw[k].n = n; vg_fw[k].y = y; vg_fw[k].at = at; vg_fw[k].group = group; vg_fw[k].st = st; vg_fw[k].data = data;
}

struct jls_buf_s * jls_buf_alloc(void) {
    struct jls_buf_s * s = malloc(sizeof(*s)); __CPROVER_assume(s != NULL);
    s->start = malloc(sizeof(struct vg_payload) + 8); __CPROVER_assume(s->start != NULL);
    s->cur = s->start; s->end = s->start; s->length = 0; s->alloc_size = sizeof(struct vg_payload) + 8; s->strings_head = NULL; s->strings_tail = NULL;
    return s;
}
void jls_buf_free(struct jls_buf_s * self) { (void) self; vg_buf_freed++; }
int32_t jls_buf_realloc(struct jls_buf_s * self, size_t size) { return (size <= self->alloc_size) ? 0 : JLS_ERROR_NOT_ENOUGH_MEMORY; }
/* definition chunks (variant VG_DEFS): the payload reader is a recording model: it checks that jls_copy asks for the fields in the order and
 * with the widths of the published layout and hands out ghost field values */
#ifndef VG_DEFS
#define VG_DEFS 0
#endif
enum { VG_RD_SKIP = 1, VG_RD_U8, VG_RD_U16, VG_RD_U32, VG_RD_STR };
static int vg_rd_n, vg_layout_bad; static uint8_t vg_def_tag;
static const uint32_t * vg_field;    /* 16 arbitrary field values */ static const char vg_s0[] = "n", vg_s1[] = "u", vg_s2[] = "m", vg_s3[] = "v", vg_s4[] = "s";
static const char * vg_strs[5] = { vg_s0, vg_s1, vg_s2, vg_s3, vg_s4 }; static int vg_str_n;
static int vg_expect_kind(int n, size_t * skip) {
    *skip = 0;
    if (vg_def_tag == JLS_TAG_SOURCE_DEF) { if (n == 0) { *skip = 64; return VG_RD_SKIP; } return (n <= 5) ? VG_RD_STR : 0; }
    if (n == 0) return VG_RD_U16; if (n == 1) return VG_RD_U8; if (n == 2) { *skip = 1; return VG_RD_SKIP; }
    if (n >= 3 && n <= 10) return VG_RD_U32; if (n == 11) { *skip = 92; return VG_RD_SKIP; } if (n == 12 || n == 13) return VG_RD_STR;
    return 0;
}
static int32_t vg_rd(int kind, size_t count) {
    size_t skip; int want = vg_expect_kind(vg_rd_n, &skip);
    if (!VG_DEFS) return JLS_ERROR_EMPTY;
    if (want != kind || (kind == VG_RD_SKIP && skip != count)) { vg_layout_bad++; }
    return 0;
}
int32_t jls_buf_rd_skip(struct jls_buf_s * self, size_t count) { (void) self; int32_t rc = vg_rd(VG_RD_SKIP, count); vg_rd_n++; return rc; }
int32_t jls_buf_rd_u8(struct jls_buf_s * self, uint8_t * v) { (void) self; int32_t rc = vg_rd(VG_RD_U8, 0); if (!rc) { *v = (uint8_t) vg_field[vg_rd_n & 15]; } vg_rd_n++; return rc; }
int32_t jls_buf_rd_u16(struct jls_buf_s * self, uint16_t * v) { (void) self; int32_t rc = vg_rd(VG_RD_U16, 0); if (!rc) { *v = (uint16_t) vg_field[vg_rd_n & 15]; } vg_rd_n++; return rc; }
int32_t jls_buf_rd_u32(struct jls_buf_s * self, uint32_t * v) { (void) self; int32_t rc = vg_rd(VG_RD_U32, 0); if (!rc) { *v = vg_field[vg_rd_n & 15]; } vg_rd_n++; return rc; }
int32_t jls_buf_rd_str(struct jls_buf_s * self, const char ** v) { (void) self; int32_t rc = vg_rd(VG_RD_STR, 0); if (!rc) { *v = vg_strs[vg_str_n % 5]; vg_str_n++; } vg_rd_n++; return rc; }
const char * jls_error_code_name(int ec) { (void) ec; return "?"; }
const char * jls_error_code_description(int ec) { (void) ec; return "?"; }

static int32_t vg_open_rc;
int32_t jls_raw_open(struct jls_raw_s ** instance, const char * path, const char * mode) {
    (void) path; (void) mode;
    if (vg_open_rc && vg_open_rc != JLS_ERROR_TRUNCATED) { *instance = NULL; return vg_open_rc; }
    *instance = (struct jls_raw_s *) &vg_dummy_rd; vg_rd_open++; vg_pos = vg_k ? vg_ch[0].pos : vg_end; vg_cur = -1;
    return vg_open_rc;
}
int32_t jls_raw_close(struct jls_raw_s * self) { (void) self; vg_rd_closed++; return 0; }
int64_t jls_raw_chunk_tell(struct jls_raw_s * self) { (void) self; return vg_pos; }
int32_t jls_raw_seek_end(struct jls_raw_s * self) { (void) self; vg_pos = vg_end; vg_cur = -1; return 0; }
int32_t jls_raw_chunk_seek(struct jls_raw_s * self, int64_t offset) { (void) self; vg_pos = offset; vg_cur = -1; return 0; }
static int vg_chunk_at(int64_t pos) { for (int k = 0; k < VG_K; ++k) { if (k < vg_k && vg_ch[k].pos == pos) return k; } return -1; }
int32_t jls_raw_rd_header(struct jls_raw_s * self, struct jls_chunk_header_s * hdr) {
    (void) self;
    int k = vg_chunk_at(vg_pos);
    if (k < 0 || vg_ch[k].hdr_bad) { vg_cur = -1; return (k < 0) ? JLS_ERROR_EMPTY : JLS_ERROR_MESSAGE_INTEGRITY; }
    vg_cur = k;
    hdr->item_next = 0; hdr->item_prev = 0; hdr->tag = vg_ch[k].tag; hdr->rsv0_u8 = 0; hdr->chunk_meta = vg_ch[k].meta;
    hdr->payload_length = vg_ch[k].len; hdr->payload_prev_length = 0; hdr->crc32 = 0;
    return 0;
}
int32_t jls_raw_chunk_scan(struct jls_raw_s * self) {
    (void) self;
    for (int k = 0; k < VG_K; ++k) { if (k < vg_k && vg_ch[k].pos >= vg_pos && !vg_ch[k].hdr_bad) { vg_pos = vg_ch[k].pos; vg_cur = -1; return 0; } }
    return JLS_ERROR_NOT_FOUND;
}
int32_t jls_raw_rd_payload(struct jls_raw_s * self, uint32_t payload_length_max, uint8_t * payload) {
    (void) self;
    int k = vg_cur;
    if (k < 0) {      /* the raw layer reads the header itself when the caller did not */
        k = vg_chunk_at(vg_pos);
        if (k < 0 || vg_ch[k].hdr_bad) return JLS_ERROR_EMPTY;
        vg_cur = k;
    }
    if (vg_ch[k].len + 12 > payload_length_max) return JLS_ERROR_TOO_BIG;
    if (vg_ch[k].pay_bad) return JLS_ERROR_MESSAGE_INTEGRITY;
    *(struct vg_payload *) payload = vg_ch[k].pay;
    vg_pos = (k + 1 < vg_k) ? vg_ch[k + 1].pos : vg_end;
    return 0;
}
int32_t jls_raw_chunk_next(struct jls_raw_s * self) {
    (void) self;
    int k = (vg_cur >= 0) ? vg_cur : vg_chunk_at(vg_pos);
    if (k < 0) return JLS_ERROR_EMPTY;
    if (k + 1 >= vg_k) { vg_pos = vg_end; vg_cur = -1; return JLS_ERROR_EMPTY; }
    vg_pos = vg_ch[k + 1].pos; vg_cur = -1;
    return 0;
}
static int32_t vg_wr_open_rc;
int32_t jls_wr_open(struct jls_wr_s ** instance, const char * path) { (void) path; if (vg_wr_open_rc) return vg_wr_open_rc; *instance = (struct jls_wr_s *) &vg_dummy_wr; vg_wr_open++; return 0; }
int32_t jls_wr_close(struct jls_wr_s * self) { (void) self; vg_wr_closed++; return 0; }
static int vg_def_bad;
int32_t jls_wr_source_def(struct jls_wr_s * self, const struct jls_source_def_s * s) {
    (void) self; vg_record(1, s->source_id, 0, 0, 0, 0, 0, 0, 0, NULL);
    if (s->name != vg_s0 || s->vendor != vg_s1 || s->model != vg_s2 || s->version != vg_s3 || s->serial_number != vg_s4) { vg_def_bad++; }
    return 0; }
int32_t jls_wr_signal_def(struct jls_wr_s * self, const struct jls_signal_def_s * s) {
    (void) self; vg_record(2, s->signal_id, 0, 0, 0, 0, 0, 0, 0, NULL);
    if (s->source_id != (uint16_t) vg_field[0] || s->signal_type != (uint8_t) vg_field[1] || s->data_type != vg_field[3] || s->sample_rate != vg_field[4]
        || s->samples_per_data != vg_field[5] || s->sample_decimate_factor != vg_field[6] || s->entries_per_summary != vg_field[7] || s->summary_decimate_factor != vg_field[8]
        || s->annotation_decimate_factor != vg_field[9] || s->utc_decimate_factor != vg_field[10] || s->name != vg_s0 || s->units != vg_s1) { vg_def_bad++; }
    return 0; }
int32_t jls_wr_fsr(struct jls_wr_s * self, uint16_t signal_id, int64_t sample_id, const void * data, uint32_t data_length) {
    (void) self; vg_record(3, signal_id, sample_id, 0, data_length, 0, 0, 0, 0, data); return nondet_bool() ? JLS_ERROR_IO : 0; }
int32_t jls_wr_annotation(struct jls_wr_s * self, uint16_t signal_id, int64_t timestamp, float y, enum jls_annotation_type_e at, uint8_t group_id,
                          enum jls_storage_type_e st, const uint8_t * data, uint32_t data_size) {
    (void) self; vg_record(4, signal_id, timestamp, 0, data_size, y, (uint8_t) at, group_id, (uint8_t) st, data); return nondet_bool() ? JLS_ERROR_IO : 0; }
int32_t jls_wr_utc(struct jls_wr_s * self, uint16_t signal_id, int64_t sample_id, int64_t utc) {
    (void) self; vg_record(5, signal_id, sample_id, utc, 0, 0, 0, 0, 0, NULL); return nondet_bool() ? JLS_ERROR_IO : 0; }
int32_t jls_wr_user_data(struct jls_wr_s * self, uint16_t chunk_meta, enum jls_storage_type_e st, const uint8_t * data, uint32_t data_size) {
    (void) self; vg_record(6, chunk_meta, 0, 0, data_size, 0, 0, 0, (uint8_t) st, data); return nondet_bool() ? JLS_ERROR_IO : 0; }

void h_copy(void) {
    int k; __CPROVER_assume(k >= 0 && k <= VG_K); vg_k = k;
    int64_t pos = 64;
    for (int i = 0; i < VG_K; ++i) {
        uint8_t tag = nondet_u8();
#if VG_DEFS
        __CPROVER_assume(tag == JLS_TAG_SOURCE_DEF || tag == JLS_TAG_SIGNAL_DEF); vg_def_tag = tag;     /* the definition variant: one definition chunk */
#else
        __CPROVER_assume(tag != JLS_TAG_SOURCE_DEF && tag != JLS_TAG_SIGNAL_DEF);      /* definitions: variant unit B-copy-defs */
#endif
        vg_ch[i].tag = tag; vg_ch[i].meta = nondet_u16(); vg_ch[i].len = nondet_u32(); __CPROVER_assume(vg_ch[i].len <= VG_PAY);
        vg_ch[i].hdr_bad = VG_DAMAGED ? nondet_bool() : 0; vg_ch[i].pay_bad = VG_DAMAGED ? nondet_bool() : 0;    /* C17 speaks about readable sources */
        struct vg_payload p; vg_ch[i].pay = p;       /* arbitrary contents */
        vg_ch[i].pos = pos; pos += 32 + ((vg_ch[i].len + 4 + 7) & ~7u);
    }
    int64_t tail; __CPROVER_assume(tail >= 0 && tail < 40);      /* an unclosed original may end in a partial chunk */
    vg_end = (vg_k ? vg_ch[vg_k - 1].pos + 32 + ((vg_ch[vg_k - 1].len + 4 + 7) & ~7u) : 64);
    vg_open_rc = nondet_i32(); __CPROVER_assume(vg_open_rc >= 0 && vg_open_rc <= 30);
    if (vg_open_rc == JLS_ERROR_TRUNCATED) { vg_end += tail; } 
    vg_wr_open_rc = nondet_bool() ? JLS_ERROR_IO : 0;
    vg_rd_open = 0; vg_rd_closed = 0; vg_wr_open = 0; vg_wr_closed = 0; vg_buf_freed = 0; vg_calls = 0; vg_call_chunk_order_bad = 0; vg_last_chunk = -1; vg_cur = -1;
    for (int i = 0; i < VG_K; ++i) { vg_fw[i].kind = 0; }
    vg_rd_n = 0; vg_layout_bad = 0; vg_str_n = 0; vg_def_bad = 0;
    uint32_t fields[16]; vg_field = fields;      /* uninitialised: arbitrary */
    int32_t rc = jls_copy("src", "dst", NULL, NULL, NULL, NULL);
    _Bool src_ok = (vg_open_rc == 0 || vg_open_rc == JLS_ERROR_TRUNCATED);
    _Bool all_readable = 1;
    for (int i = 0; i < VG_K; ++i) { if (i < vg_k && (vg_ch[i].hdr_bad || vg_ch[i].pay_bad)) all_readable = 0; }
#if VG_KF34
    /* (was defect F34: error returns left the destination open; fixed) */
    __CPROVER_assert(vg_wr_closed == vg_wr_open && vg_rd_closed == vg_rd_open, "C17/C10: whatever was opened is closed on every path (the copy is a properly closed file)");
#else
    __CPROVER_assert(rc != 0 || (vg_wr_closed == vg_wr_open && vg_rd_closed == vg_rd_open && vg_wr_open == 1), "C17: a successful copy has closed source and destination");
#endif
    __CPROVER_assert(vg_call_chunk_order_bad == 0, "C17: at most one writer call per source chunk, in file order");
    if (rc == 0) {
        int w; __CPROVER_assume(w >= 0 && w < VG_K && w < vg_k);       /* an arbitrary chunk of the source */
        const uint8_t * pb = vg_ch[w].pay.b;
        _Bool readable = !vg_ch[w].hdr_bad && !vg_ch[w].pay_bad;
        uint8_t tag = vg_ch[w].tag; uint16_t meta = vg_ch[w].meta;
        if (!readable) {
            __CPROVER_assert(vg_fw[w].kind == 0, "C04/C17: nothing is forwarded from an unreadable chunk");
        } else if (tag == JLS_TAG_SOURCE_DEF || tag == JLS_TAG_SIGNAL_DEF) {
            __CPROVER_assert(vg_layout_bad == 0, "C13/C05: jls_copy reads a definition payload field by field in the published order and widths");
            __CPROVER_assert(vg_rd_n == (tag == JLS_TAG_SOURCE_DEF ? 6 : 14), "C13: every field of the definition is read");
            if (meta != 0) {
                __CPROVER_assert(vg_fw[w].kind == (tag == JLS_TAG_SOURCE_DEF ? 1 : 2) && vg_fw[w].id == meta && vg_def_bad == 0,
                                 "C17: a definition is re-issued with its id, every numeric field and every string as stored");
            } else {
                __CPROVER_assert(vg_fw[w].kind == 0, "C17: the reserved source 0 / signal 0 are not re-issued (the writer creates them)");
            }
        } else if (tag == JLS_TAG_TRACK_FSR_DATA) {
            const struct jls_fsr_data_s * d = (const struct jls_fsr_data_s *) pb;
            __CPROVER_assert(vg_fw[w].kind == 3 && vg_fw[w].id == (meta & 0x0fff) && vg_fw[w].t1 == d->header.timestamp && vg_fw[w].n == d->header.entry_count,
                             "C17: an FSR data chunk is re-issued with its signal id, first sample id and sample count");
        } else if (tag == JLS_TAG_TRACK_ANNOTATION_DATA) {
            const struct jls_annotation_s * a = (const struct jls_annotation_s *) pb;
            __CPROVER_assert(vg_fw[w].kind == 4 && vg_fw[w].id == (meta & 0x0fff) && vg_fw[w].t1 == a->timestamp && vg_fw[w].at == a->annotation_type && vg_fw[w].group == a->group_id
                             && vg_fw[w].st == a->storage_type && vg_fw[w].n == a->data_size && (a->y != a->y || vg_fw[w].y == a->y),
                             "C17: an annotation is re-issued with its signal id, timestamp, type, group, y, storage type and size");
        } else if (tag == JLS_TAG_TRACK_UTC_DATA) {
            const struct jls_utc_data_s * u = (const struct jls_utc_data_s *) pb;
            __CPROVER_assert(vg_fw[w].kind == 5 && vg_fw[w].id == (meta & 0x0fff) && vg_fw[w].t1 == u->header.timestamp && vg_fw[w].t2 == u->timestamp,
                             "C17: a UTC entry is re-issued with its signal id, sample id and time");
        } else if (tag == JLS_TAG_USER_DATA) {
            if (((meta >> 12) & 0x0f) != JLS_STORAGE_TYPE_INVALID) {
                __CPROVER_assert(vg_fw[w].kind == 6 && vg_fw[w].id == (meta & 0x0fff) && vg_fw[w].st == ((meta >> 12) & 0x0f) && vg_fw[w].n == vg_ch[w].len,
                                 "C17: user data is re-issued with its 12-bit tag, storage type and size");
            }
        } else if (tag == JLS_TAG_TRACK_FSR_INDEX && ((meta >> 12) & 0x0f) == 1 && vg_ch[w].len >= sizeof(struct jls_fsr_index_s) + 8
                   && ((const struct jls_fsr_index_s *) pb)->header.entry_count >= 1 && ((const struct jls_fsr_index_s *) pb)->offsets[0] == 0) {
            /* a level-1 index entry with offset 0 is a block that exists only as a summary (omitted data) */
#if VG_KF35
            __CPROVER_assert(vg_fw[w].kind != 0, "C17: a block that exists only as a summary (omitted data) is re-created in the copy");
#endif
        } else {
            __CPROVER_assert(vg_fw[w].kind == 0, "C17: structural chunks (heads, indices, summaries, END) are not re-issued: the writer rebuilds them");
        }
    }
    if (src_ok && vg_wr_open_rc == 0 && all_readable && vg_calls == 0 && vg_open_rc == 0) {
        __CPROVER_assert(rc == 0, "C17: a readable closed file without data chunks is copied successfully");
    }
    VG_REACH(copy_returns);
#if VG_K >= 2
    if (rc == 0 && vg_calls == 2) { VG_REACH(copy_two_forwards); }
#endif
#if VG_DEFS
    if (rc == 0 && vg_calls == 1 && vg_def_tag == JLS_TAG_SIGNAL_DEF) { VG_REACH(copy_signal_def_forwarded); }
#endif
    if (rc == 0 && vg_open_rc == JLS_ERROR_TRUNCATED) { VG_REACH(copy_unclosed_original); }
}
