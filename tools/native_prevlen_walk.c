#include "jls/writer.h"
#include "jls/raw.h"
#include "jls/format.h"
#include <stdio.h>
#include <string.h>
int main(void) {
    struct jls_wr_s * wr;
    if (jls_wr_open(&wr, "/tmp/p1/f8.jls")) return 2;
    for (int i = 1; i <= 3; ++i) {
        struct jls_source_def_s src = {.source_id = i, .name="source", .vendor="v", .model="m", .version="1", .serial_number="1"};
        jls_wr_source_def(wr, &src);
    }
    jls_wr_close(wr);
    struct jls_raw_s * r;
    if (jls_raw_open(&r, "/tmp/p1/f8.jls", "r")) return 3;
    struct jls_chunk_header_s h; uint32_t prev = 0; int bad = 0; static uint8_t buf[1<<20];
    while (0 == jls_raw_rd(r, &h, sizeof(buf), buf)) {
        printf("tag=0x%02x meta=%u len=%u prev_len=%u (expected %u) %s\n", h.tag, h.chunk_meta, h.payload_length, h.payload_prev_length, prev, h.payload_prev_length == prev ? "" : "  <== MISMATCH");
        if (h.payload_prev_length != prev) bad++;
        prev = h.payload_length;
    }
    printf("mismatches=%d\n", bad);
    return bad ? 1 : 0;
}
