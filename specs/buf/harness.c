/* harnesses for buffer.c -- included at the end of the injected TU */
#include "vg.h"
size_t vg_o, vg_len0, vg_cur0, vg_end0;
uint8_t vg_byte0;

/* an arbitrary well-formed buffer, built explicitly (cursor anywhere, end anywhere behind it) */
static struct jls_buf_s * vg_mk_buf(_Bool writing) {
    struct jls_buf_s * b = malloc(sizeof(*b));
    __CPROVER_assume(b != NULL);
    size_t alloc, co, eo;
    __CPROVER_assume(alloc >= 16 && alloc <= VG_BUF_MAX);
    b->start = malloc(alloc);
    __CPROVER_assume(b->start != NULL);
    __CPROVER_assume(co <= eo && eo <= alloc);
    if (writing) { __CPROVER_assume(co == eo); }
    b->cur = b->start + co;
    b->end = b->start + eo;
    b->length = eo;
    b->alloc_size = alloc;
    b->strings_head = NULL;
    b->strings_tail = NULL;
    return b;
}

void h_buf_realloc(void) {
    struct jls_buf_s * b = vg_mk_buf(0);
    size_t size;
    int32_t rc = jls_buf_realloc(b, size);
    VG_REACH(realloc_returns);
    if (rc == 0 && size > 4 * vg_len0 && size > (1u << 21)) { VG_REACH(realloc_grew); }
    if (rc != 0) { VG_REACH(realloc_failed); }
}
