/* bounded harness for the FSR sample packer (C01 writer side, C09): two jls_wr_fsr_data calls with arbitrary first sample id,
 * lengths, contents and relative position (contiguous, gap or overlap), followed by the flush that jls_fsr_close performs.
 * (Form used: ONE call on an arbitrary pre-state that satisfies the packer's representation invariant, instead of two calls.)
 * Blocks are VG_BLOCK_BYTES bytes; the scratch buffer has JLS_VERIF_FSR_BUFFER_WORDS words (hook).  The stored blocks arrive at the
 * model of jls_core_wr_data, which checks that they tile the signal and picks out one arbitrary sample (witness) for comparison. */
#include "vg.h"
#include <stdlib.h>
#ifndef VG_BITS
#define VG_BITS 1
#endif
#ifndef VG_BLOCK_BYTES
#define VG_BLOCK_BYTES 2
#endif
#define VG_SPD ((VG_BLOCK_BYTES * 8) / VG_BITS)
#ifndef VG_CASE
#define VG_CASE 0      /* 0: every relative position; 1 contiguous, 2 gap, 3 overlap (the three together cover 0) */
#endif
#ifndef VG_MAXN
#define VG_MAXN (VG_SPD + 1)
#endif
int32_t nondet_i32(void); uint8_t nondet_u8(void); _Bool nondet_bool(void);

/* byte-loop memory functions (bounded by the block / scratch sizes) */
void * memcpy(void * dst, const void * src, size_t n) { for (size_t i = 0; i < n; ++i) { ((uint8_t *) dst)[i] = ((const uint8_t *) src)[i]; } return dst; }
void * memset(void * dst, int c, size_t n) { for (size_t i = 0; i < n; ++i) { ((uint8_t *) dst)[i] = (uint8_t) c; } return dst; }

static int64_t vg_w;            /* witness: an arbitrary sample id */
static unsigned vg_wk;          /* witness byte within the sample (types of 16 bits and more) */
static int64_t vg_next_ts;      /* where the next stored block has to start */
static int64_t vg_stored;       /* samples stored so far */
static int vg_seen; static unsigned vg_val; static int vg_bad_block; static int vg_short_blocks;
static int vg_dummy_raw;

#if VG_BITS < 8
static unsigned vg_unit(const uint8_t * b, int64_t n) { int64_t bit = n * VG_BITS; return (b[bit / 8] >> (bit % 8)) & ((1u << VG_BITS) - 1u); }
#else
static unsigned vg_unit(const uint8_t * b, int64_t n) { return b[n * (VG_BITS / 8) + vg_wk]; }
#endif

int32_t vg_model_summary1(struct jls_core_fsr_s * self, int64_t pos) { (void) self; (void) pos; return 0; }
int64_t jls_raw_chunk_tell(struct jls_raw_s * self) { (void) self; return 4096; }
int32_t jls_core_wr_data(struct jls_core_s * self, uint16_t signal_id, enum jls_track_type_e track_type, const uint8_t * payload, uint32_t payload_length) {
    (void) self; (void) signal_id; (void) track_type;
    const struct jls_fsr_data_s * r = (const struct jls_fsr_data_s *) payload;
    int64_t ts = r->header.timestamp; int64_t count = r->header.entry_count;
    if (ts != vg_next_ts || count < 1 || count > VG_SPD || r->header.entry_size_bits != VG_BITS
        || payload_length != sizeof(struct jls_fsr_data_s) + (size_t) ((count * VG_BITS + 7) / 8) || vg_short_blocks) { vg_bad_block++; }
    if (count < VG_SPD) { vg_short_blocks++; }      /* only the last block may be partial */
    if (ts <= vg_w && vg_w < ts + count) { vg_seen++; vg_val = vg_unit((const uint8_t *) r->data, vg_w - ts); }
    vg_next_ts = ts + VG_SPD; vg_stored += count;
    return 0;
}

void h_fsr_pack(void) {
    struct jls_core_fsr_s * f = malloc(sizeof(*f));
    struct jls_core_signal_s * sig = malloc(sizeof(*sig));
    struct jls_core_s * core = malloc(sizeof(*core));
    __CPROVER_assume(f != NULL && sig != NULL && core != NULL);
    f->parent = sig; f->data_f64 = NULL; f->write_omit_data = 0;
    sig->parent = core;
    sig->signal_def.data_type = VG_DT; sig->signal_def.samples_per_data = VG_SPD; sig->signal_def.signal_id = 5;
    sig->tracks[JLS_TRACK_TYPE_FSR].data_head.offset = 0;     /* nothing stored yet: no block is omitted; omission is the subject of U-fsr-wrdata */
    /* pre-state: either a fresh signal, or a block holding e0 < SPD samples that start at id t0 (representation invariant of the packer:
     * shift_amount = bits of the partially filled byte, whose samples are carried in shift_buffer) */
    int64_t t0, id; uint32_t e0, n; int64_t w; unsigned wk; _Bool fresh;
    __CPROVER_assume(t0 > -(1ll << 60) && t0 < (1ll << 60) && e0 < VG_SPD && n >= 1 && n <= VG_MAXN);
    __CPROVER_assume(wk < (VG_BITS >= 8 ? VG_BITS / 8 : 1));
    if (fresh) {
        f->data = NULL; f->data_length = 0; f->shift_amount = 0; f->shift_buffer = 0;
        __CPROVER_assume(e0 == 0 && id == t0);
    } else {
        f->data = malloc(sizeof(struct jls_payload_header_s) + VG_BLOCK_BYTES);
        __CPROVER_assume(f->data != NULL);
        f->data->header.timestamp = t0; f->data->header.entry_count = e0; f->data->header.entry_size_bits = VG_BITS; f->data->header.rsv16 = 0;
        f->data_length = VG_SPD;
        f->shift_amount = (uint8_t) ((e0 * VG_BITS) % 8);
        __CPROVER_assume(id >= t0 - VG_MAXN && id <= t0 + (int64_t) e0 + VG_MAXN);
    }
    uint8_t * d = malloc((size_t) ((n * VG_BITS + 7) / 8));
    __CPROVER_assume(d != NULL);
    int64_t end0 = t0 + e0; int64_t end1 = id + n;
#if VG_CASE == 1
    __CPROVER_assume(fresh || id == end0);      /* unit variant: contiguous writes */
#elif VG_CASE == 2
    __CPROVER_assume(!fresh && id > end0);      /* unit variant: gaps */
#elif VG_CASE == 3
    __CPROVER_assume(!fresh && id < end0);      /* unit variant: overlaps */
#endif
    int64_t end = (end1 > end0) ? end1 : end0;
    __CPROVER_assume(w >= t0 && w < end);
    vg_w = w; vg_wk = wk; vg_next_ts = t0; vg_stored = 0; vg_seen = 0; vg_bad_block = 0; vg_short_blocks = 0;
    unsigned pre = 0;
    if (w < end0) {       /* an already accepted sample: in the block, or (last partial byte) in the carry */
        int64_t bit = (w - t0) * VG_BITS;
        if (VG_BITS < 8 && bit / 8 == ((int64_t) e0 * VG_BITS) / 8) { pre = (f->shift_buffer >> (bit % 8)) & ((1u << (VG_BITS < 8 ? VG_BITS : 1)) - 1u); }
        else { pre = vg_unit((const uint8_t *) f->data->data, w - t0); }
    }
    int32_t rc1 = jls_wr_fsr_data(f, id, d, n);
    __CPROVER_assert(rc1 == 0, "C01/C09: contiguous, gapped and overlapping writes are accepted");
    int32_t rc3 = wr_data(f);        /* what jls_fsr_close does with the partially filled block */
    __CPROVER_assert(rc3 == 0, "the final flush succeeds");
    __CPROVER_assert(vg_bad_block == 0, "C01/C05: the stored blocks tile the signal: consecutive ids, full blocks except the last, payload length = header + packed samples");
    __CPROVER_assert(vg_stored == end - t0, "C01/C09: signal length = last id + 1 - first id");
    __CPROVER_assert(vg_seen == 1, "C01: every sample id of the signal is stored exactly once");
    if (w < end0) {
        __CPROVER_assert(vg_val == pre, "C01/C09: samples already accepted are stored bit-exactly and survive an overlapping write");
    } else if (w >= id) {
        __CPROVER_assert(vg_val == vg_unit(d, w - id), "C01/C09: the samples of a write beyond the accepted ones are stored bit-exactly");
    } else {
#if VG_IS_FLOAT
        { union { float f; double d; uint8_t b[8]; } q; if (VG_BITS == 32) { q.f = NAN; } else { q.d = NAN; }
          __CPROVER_assert(vg_val == q.b[vg_wk], "C09: skipped samples of a float signal are NaN"); }
#else
        __CPROVER_assert(vg_val == 0, "C09: skipped samples of an integer signal are zero");
#endif
    }
    VG_REACH(pack_returns);
#if VG_CASE == 0 || VG_CASE == 2
    if (id > end0 + 1) { VG_REACH(pack_gap); }
#endif
#if VG_CASE == 0 || VG_CASE == 3
#if VG_BITS < 8
    if (id < end0 && end1 > end0 && (((end0 - id) * VG_BITS) & 7)) { VG_REACH(pack_unaligned_overlap); }
#endif
    if (end1 <= end0) { VG_REACH(pack_total_overlap); }
#endif
#if VG_CASE == 0 || VG_CASE == 1
    if (fresh) { VG_REACH(pack_fresh); }
    if (!fresh && e0 > 0 && end1 > t0 + VG_SPD) { VG_REACH(pack_contiguous_across_a_block); }
#endif
}
