/* native replay for the packer units: the counterexample (packer state, position and length of the write) is run end to end through the
 * real writer and reader.  The bounded units use small blocks; the real writer's smallest block is 32 bytes, so positions are mapped block by
 * block keeping their distance to the nearest block boundary and their bit alignment.  The packer state "block holding e0 samples from id t0"
 * is produced by a first write of e0 samples.  Every sample of the closed file is compared. */
#include "vg_native.h"
#include "jls/writer.h"
#include "jls/reader.h"
#include "jls/format.h"
#include <unistd.h>
#include <math.h>
#ifndef VG_BITS
#define VG_BITS 4
#endif
#ifndef VG_DT
#define VG_DT JLS_DATATYPE_U4
#endif
#ifndef VG_BLOCK_BYTES
#define VG_BLOCK_BYTES 2
#endif
#ifndef VG_IS_FLOAT
#define VG_IS_FLOAT 0
#endif
static int64_t spd_m, spd_r;
static int64_t map_rel(int64_t x) {
    if (x < 0) return x;
    int64_t c = x / spd_m, r = x % spd_m;
    return (r <= spd_m / 2) ? c * spd_r + r : (c + 1) * spd_r - (spd_m - r);
}
static unsigned bits_at(const uint8_t * b, int64_t n) {   /* sub-byte types */
    int64_t bit = n * VG_BITS; return (b[bit / 8] >> (bit % 8)) & ((1u << (VG_BITS < 8 ? VG_BITS : 1)) - 1u);
}
static int same_sample(const uint8_t * a, int64_t ia, const uint8_t * b, int64_t ib) {
    if (VG_BITS < 8) return bits_at(a, ia) == bits_at(b, ib);
    return 0 == memcmp(a + ia * (VG_BITS / 8), b + ib * (VG_BITS / 8), VG_BITS / 8);
}
static int is_fill(const uint8_t * a, int64_t ia) {
    if (VG_BITS < 8) return bits_at(a, ia) == 0;
    if (VG_IS_FLOAT && VG_BITS == 32) { float f; memcpy(&f, a + ia * 4, 4); return isnan(f); }
    if (VG_IS_FLOAT && VG_BITS == 64) { double f; memcpy(&f, a + ia * 8, 8); return isnan(f); }
    for (int k = 0; k < VG_BITS / 8; ++k) { if (a[ia * (VG_BITS / 8) + k]) return 0; }
    return 1;
}
static uint8_t * rnd(int64_t n, unsigned seed) {
    size_t nb = (size_t) ((n * VG_BITS + 7) / 8);
    uint8_t * p = malloc(nb ? nb : 1);
    srand(seed);
    for (size_t i = 0; i < nb; ++i) { p[i] = (uint8_t) (rand() | 1); }    /* no all-zero bytes: data never looks like fill */
    if (VG_IS_FLOAT) { for (size_t i = VG_BITS / 8 - 1; i < nb; i += VG_BITS / 8) { p[i] = 0x3f; } }   /* finite floats */
    return p;
}

static int r_fsr_pack(void) {
    int64_t t0 = (int64_t) vg_in_u64("t0", 0), id = (int64_t) vg_in_u64("id", 1);
    int64_t e0 = (int64_t) vg_in_u64("e0", 3), n = (int64_t) vg_in_u64("n", 4);
    spd_m = (VG_BLOCK_BYTES * 8) / VG_BITS; spd_r = 256 / VG_BITS;
    int64_t e0r = map_rel(e0);
    int64_t idr = t0 + map_rel(id - t0);
    int64_t nr = (t0 + map_rel(id - t0 + n)) - idr;
    if (id - t0 < 0) { nr = map_rel(id - t0 + n) - (id - t0); }
    if (e0r == 0) { idr = t0; }        /* fresh signal: the first write defines the first id */
    int64_t end0 = t0 + e0r, end1 = idr + nr, end = end1 > end0 ? end1 : end0;
    if (nr <= 0 || end - t0 < spd_r) { printf("replay: scenario too short for the real block size (F23 territory)\n"); return 0; }
    char path[] = "/tmp/vg_replay_XXXXXX";
    int fd = mkstemp(path); close(fd);
    struct jls_wr_s * wr;
    if (jls_wr_open(&wr, path)) { unlink(path); return 0; }
    struct jls_source_def_s src = {.source_id = 1, .name = "s", .vendor = "v", .model = "m", .version = "1", .serial_number = "1"};
    jls_wr_source_def(wr, &src);
    struct jls_signal_def_s sig = {.signal_id = 5, .source_id = 1, .signal_type = JLS_SIGNAL_TYPE_FSR, .data_type = VG_DT, .sample_rate = 1000,
        .samples_per_data = (uint32_t) spd_r, .sample_decimate_factor = (uint32_t) spd_r, .entries_per_summary = 64, .summary_decimate_factor = 4, .name = "x", .units = "u"};
    if (jls_wr_signal_def(wr, &sig)) { jls_wr_close(wr); unlink(path); return 0; }
    uint8_t * d0 = rnd(e0r, 11); uint8_t * d1 = rnd(nr, 23);
    printf("replay: %d-bit signal, first write id=%lld n=%lld, second write id=%lld n=%lld\n", VG_BITS, (long long) t0, (long long) e0r, (long long) idr, (long long) nr);
    fflush(stdout);
    if (e0r > 0) { VG_CHECK(0 == jls_wr_fsr(wr, 5, t0, d0, (uint32_t) e0r), "first write rejected"); }
    int32_t rc = jls_wr_fsr(wr, 5, idr, d1, (uint32_t) nr);
    VG_CHECK(rc == 0, "second write rejected rc=%d", rc);
    jls_wr_close(wr);
    struct jls_rd_s * rd;
    if (jls_rd_open(&rd, path)) { unlink(path); VG_FAIL("the closed file does not open"); }
    int64_t len = -1;
    jls_rd_fsr_length(rd, 5, &len);
    VG_CHECK(len == end - t0, "length %lld reported, last id + 1 - first id = %lld", (long long) len, (long long) (end - t0));
    uint8_t * out = malloc((size_t) ((len * VG_BITS + 7) / 8));
    rc = jls_rd_fsr(rd, 5, 0, out, len);
    VG_CHECK(rc == 0, "read fails rc=%d", rc);
    for (int64_t k = 0; k < len; ++k) {
        int64_t x = t0 + k;
        if (x < end0) { VG_CHECK(same_sample(out, k, d0, k), "sample %lld (first write) altered", (long long) k); }
        else if (x >= idr) { VG_CHECK(same_sample(out, k, d1, x - idr), "sample %lld (second write, its sample %lld) wrong", (long long) k, (long long) (x - idr)); }
        else { VG_CHECK(is_fill(out, k), "gap sample %lld is not the fill value", (long long) k); }
    }
    jls_rd_close(rd); unlink(path);
    return 0;
}

int main(void) { return VG_REPLAY_ENTRY(); }
