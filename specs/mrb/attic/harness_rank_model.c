/* harnesses for msg_ring_buffer.c -- included at the end of the injected TU */
#include "vg.h"
uint32_t vg_o, vg_wrap;
uint64_t vg_na, vg_np, vg_m, vg_n;
uint64_t vg_key[VG_NK];
uint32_t vg_koff[VG_NK], vg_ksz[VG_NK];

/* the association list represents a function of the rank: it holds the ranks the proof touches
 * (oldest, its successor, the two witnesses and their successors, newest, next) and equal keys carry equal values */
static void vg_keys_setup(void) {
    vg_key[0] = vg_np; vg_key[1] = vg_np + 1; vg_key[2] = vg_m; vg_key[3] = vg_m + 1;
    vg_key[4] = vg_n; vg_key[5] = vg_n + 1; vg_key[6] = vg_na - 1; vg_key[7] = vg_na;
#define VG_CONS(i, j) __CPROVER_assume(vg_key[i] != vg_key[j] || (vg_koff[i] == vg_koff[j] && vg_ksz[i] == vg_ksz[j]))
    VG_CONS(0,1); VG_CONS(0,2); VG_CONS(0,3); VG_CONS(0,4); VG_CONS(0,5); VG_CONS(0,6); VG_CONS(0,7);
    VG_CONS(1,2); VG_CONS(1,3); VG_CONS(1,4); VG_CONS(1,5); VG_CONS(1,6); VG_CONS(1,7);
    VG_CONS(2,3); VG_CONS(2,4); VG_CONS(2,5); VG_CONS(2,6); VG_CONS(2,7);
    VG_CONS(3,4); VG_CONS(3,5); VG_CONS(3,6); VG_CONS(3,7);
    VG_CONS(4,5); VG_CONS(4,6); VG_CONS(4,7);
    VG_CONS(5,6); VG_CONS(5,7); VG_CONS(6,7);
}

void h_mrb_clear(void) {
    struct jls_mrb_s * self;
    jls_mrb_clear(self);
    VG_REACH(clear_returns);
}

void h_mrb_alloc(void) {
    struct jls_mrb_s * self;
    uint32_t size;
    vg_keys_setup();
    uint8_t * p = jls_mrb_alloc(self, size);
    VG_REACH(alloc_returns);
    if (p) { VG_REACH(alloc_nonnull); } else { VG_REACH(alloc_null); }
    if (p && vg_live(vg_m) && vg_live(vg_n) && vg_m < vg_n && vg_n + 1 < vg_na) { VG_REACH(alloc_with_three_live); }
    if (p && vg_off(vg_na - 1) == 0 && vg_na - vg_np > 1) { VG_REACH(alloc_after_wrap); }
}

void h_mrb_peek(void) {
    struct jls_mrb_s * self;
    uint32_t * size;
    vg_keys_setup();
    uint8_t * p = jls_mrb_peek(self, size);
    VG_REACH(peek_returns);
    if (p) { VG_REACH(peek_nonnull); } else { VG_REACH(peek_null); }
}

void h_mrb_pop(void) {
    struct jls_mrb_s * self;
    uint32_t * size;
    vg_keys_setup();
    uint8_t * p = jls_mrb_pop(self, size);
    VG_REACH(pop_returns);
    if (p) { VG_REACH(pop_nonnull); } else { VG_REACH(pop_null); }
    if (p && vg_live(vg_m) && vg_live(vg_n) && vg_m < vg_n) { VG_REACH(pop_with_two_left); }
    if (p && vg_np < vg_na && vg_off(vg_np) == 0 && vg_off(vg_np - 1) != 0) { VG_REACH(pop_before_wrap); }
}
