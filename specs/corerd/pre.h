/* preamble for the reader-side units of src/core.c and src/reader.c (C01, C04, C10, C11, C13) */
#ifndef VG_CORERD_PRE_H
#define VG_CORERD_PRE_H
#include "raw_rd_model.h"
#include "jls/core.h"
#include "jls/buffer.h"
#include "../buf/pre.h"
#define VG_DISK(n) ((n) ? (((n) + 4u + 7u) & ~7u) : 0u)    /* size on disk, call-free form for loop invariants */
#define VG_BUFR_WF(b) ( (b) != NULL && (b)->start != NULL && (b)->alloc_size >= 16 && (b)->alloc_size <= (1ull << 33) \
    && __CPROVER_POINTER_OFFSET((b)->start) == 0 && __CPROVER_OBJECT_SIZE((b)->start) == (b)->alloc_size )
extern struct jls_core_s * vg_core;     /* the core instance under test (for callback stubs) */
extern uint64_t vg_ncb;
#endif
