/* preamble for msg_ring_buffer.c : ghost state + specification predicates (C08) */
#ifndef VG_MRB_PRE_H
#define VG_MRB_PRE_H
#include <stdint.h>
#include <stddef.h>
#include "jls/msg_ring_buffer.h"

#define VG_MRB_MAX   (1u << 30)     /* stated bound on the capacity; the product uses 2^26 */
#define VG_MRB_K     10u            /* usable capacity = buf_size - VG_MRB_K (largest size that fits an empty queue) */

/* basic representation invariant (no record chain yet) */
#define VG_MRB_WF0(s) ( (s)->buf_size >= 16u && (s)->buf_size <= VG_MRB_MAX      \
     && (s)->head < (s)->buf_size && (s)->tail < (s)->buf_size                    \
     && (s)->head + 4u <= (s)->buf_size && (s)->tail + 4u <= (s)->buf_size )

/* is byte offset o inside the live span [tail,head) (cyclically) */
static inline _Bool vg_mrb_live(uint32_t head, uint32_t tail, uint32_t buf_size, uint32_t o) {
    if (o >= buf_size) return 0;
    if (tail <= head) return (tail <= o) && (o < head);
    return (o >= tail) || (o < head);
}

extern uint32_t vg_o;       /* skolem witness: an arbitrary byte offset of the buffer */
#endif
