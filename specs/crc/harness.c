/* harnesses for the CRC units -- included at the end of the dispatcher src/crc32c.c */
#include "vg.h"
#include "jls/format.h"
#include <stdlib.h>
const uint8_t * vg_crc_arg;
uint32_t vg_crc_len;
uint32_t vg_crc_ret;

#ifdef VG_SSE4
/* A-ISA: semantics of the SSE4.2 CRC32 instruction (Intel SDM): accumulate 1/4/8 little-endian bytes of CRC-32C */
unsigned int __builtin_ia32_crc32qi(unsigned int c, unsigned char b) { return vg_spec_byte(c, b); }
unsigned int __builtin_ia32_crc32si(unsigned int c, unsigned int v) {
    c = vg_spec_byte(c, (uint8_t) (v & 0xff)); c = vg_spec_byte(c, (uint8_t) ((v >> 8) & 0xff));
    c = vg_spec_byte(c, (uint8_t) ((v >> 16) & 0xff)); c = vg_spec_byte(c, (uint8_t) ((v >> 24) & 0xff));
    return c;
}
unsigned long long __builtin_ia32_crc32di(unsigned long long c64, unsigned long long v) {
    unsigned int c = (unsigned int) (c64 & 0xffffffffu);
    c = vg_spec_byte(c, (uint8_t) (v & 0xff)); c = vg_spec_byte(c, (uint8_t) ((v >> 8) & 0xff));
    c = vg_spec_byte(c, (uint8_t) ((v >> 16) & 0xff)); c = vg_spec_byte(c, (uint8_t) ((v >> 24) & 0xff));
    c = vg_spec_byte(c, (uint8_t) ((v >> 32) & 0xff)); c = vg_spec_byte(c, (uint8_t) ((v >> 40) & 0xff));
    c = vg_spec_byte(c, (uint8_t) ((v >> 48) & 0xff)); c = vg_spec_byte(c, (uint8_t) ((v >> 56) & 0xff));
    return c;
}
#endif

/* every length 0..2^24, every one of the 8 start alignments */
void h_crc_gen(void) {
    uint32_t length, a;
    __CPROVER_assume(a < 8 && length <= VG_CRC_MAXLEN);
    uint8_t * base = malloc((size_t) length + a);
    __CPROVER_assume(base != NULL);
    uint32_t r = jls_crc32c(base + a, length);
    VG_REACH(crc_gen_returns);
    if (length > 40 && a == 3) { VG_REACH(crc_gen_long_unaligned); }
}

void h_crc_hdr(void) {
    struct jls_chunk_header_s * hdr = malloc(sizeof(*hdr));
    __CPROVER_assume(hdr != NULL);
    uint32_t r = jls_crc32c_hdr(hdr);
    VG_REACH(crc_hdr_returns);
}
