/* C15/C01: a trailing, partially filled block of a u8 signal is "constant" when it holds one sample, is omitted automatically,
 * and the reported length loses it.  usage: native_omit_tail [n]   (default 65 samples, samples_per_data = 32)
 * build: gcc -I/repo/include tools/native_omit_tail.c /repo/_build/src/libjls.a -lm -lpthread */
#include "jls.h"
#include "jls/writer.h"
#include "jls/reader.h"
#include <stdio.h>
#include <stdlib.h>
#include <unistd.h>
int main(int argc, char ** argv) {
    long n = (argc > 1) ? atol(argv[1]) : 65;
    char path[] = "/tmp/vg_omit_tail_XXXXXX"; int fd = mkstemp(path); close(fd);
    struct jls_wr_s * wr; if (jls_wr_open(&wr, path)) return 2;
    struct jls_source_def_s src = {.source_id = 1, .name = "s", .vendor = "v", .model = "m", .version = "1", .serial_number = "1"};
    jls_wr_source_def(wr, &src);
    struct jls_signal_def_s sig = {.signal_id = 5, .source_id = 1, .signal_type = JLS_SIGNAL_TYPE_FSR, .data_type = JLS_DATATYPE_U8, .sample_rate = 1000,
        .samples_per_data = 32, .sample_decimate_factor = 32, .entries_per_summary = 64, .summary_decimate_factor = 4, .name = "x", .units = "u"};
    if (jls_wr_signal_def(wr, &sig)) return 2;
    uint8_t * d = malloc(n); srand(3); for (long i = 0; i < n; ++i) d[i] = (uint8_t) rand();
    if (jls_wr_fsr(wr, 5, 0, d, (uint32_t) n)) return 2;
    jls_wr_close(wr);
    struct jls_rd_s * rd; if (jls_rd_open(&rd, path)) return 2;
    int64_t len = -1; jls_rd_fsr_length(rd, 5, &len);
    printf("written %ld samples, reader reports %ld\n", n, (long) len);
    jls_rd_close(rd); unlink(path);
    if (len != n) { printf("REPLAY-FAIL: length changed by automatic omission of the final block\n"); return 1; }
    return 0;
}
