/* harnesses for the reader-side units -- included at the end of the injected core.c */
#include "vg.h"
#include <stdlib.h>
struct jls_core_s * vg_core; uint64_t vg_ncb;
size_t vg_o, vg_k, vg_len0, vg_cur0, vg_end0, vg_alloc0; uint8_t vg_byte0;

static struct jls_buf_s * vg_mk_rbuf(void) {
    struct jls_buf_s * b = malloc(sizeof(*b));
    __CPROVER_assume(b != NULL);
    size_t alloc; __CPROVER_assume(alloc >= 16 && alloc <= (1ull << 32));
    b->start = malloc(alloc); __CPROVER_assume(b->start != NULL);
    b->cur = b->start; b->end = b->start; b->length = 0; b->alloc_size = alloc; b->strings_head = NULL; b->strings_tail = NULL;
    return b;
}
static struct jls_core_s * vg_mk_rcore(void) {
    struct jls_core_s * c = malloc(sizeof(*c));
    __CPROVER_assume(c != NULL);
    c->raw = malloc(sizeof(struct jls_raw_s)); __CPROVER_assume(c->raw != NULL);
    c->buf = vg_mk_rbuf();
    vg_core = c;
    return c;
}

void h_core_rdchunk(void) {
    struct jls_core_s * c = vg_mk_rcore();
    int32_t rc = jls_core_rd_chunk(c);
    VG_REACH(rdchunk_returns);
    if (rc == 0 && c->buf->length > 5000000) { VG_REACH(rdchunk_grew); }
    if (rc == JLS_ERROR_MESSAGE_INTEGRITY) { VG_REACH(rdchunk_crc_error); }
}
