#include "jls.h"
#include "jls/writer.h"
#include "jls/reader.h"
#include <stdio.h>
#include <stdlib.h>
#include <string.h>
#include <unistd.h>
/* pk3 <n1> <n2> <n3>: u4 signal spd=64; three contiguous writes from exactly sized buffers; read back */
static int nib(const uint8_t*b,long i){return (b[i/2]>>((i&1)*4))&15;}
int main(int argc,char**argv){ long n[3]={atol(argv[1]),atol(argv[2]),atol(argv[3])}; const char*path="/tmp/p1/pk3.jls"; unlink(path);
  struct jls_wr_s*wr; if(jls_wr_open(&wr,path)) return 2;
  struct jls_source_def_s src={.source_id=1,.name="s",.vendor="v",.model="m",.version="1",.serial_number="1"}; jls_wr_source_def(wr,&src);
  struct jls_signal_def_s sig={.signal_id=5,.source_id=1,.signal_type=JLS_SIGNAL_TYPE_FSR,.data_type=JLS_DATATYPE_U4,.sample_rate=1000,.samples_per_data=64,.sample_decimate_factor=64,.entries_per_summary=64,.summary_decimate_factor=4,.name="x",.units="u"};
  if(jls_wr_signal_def(wr,&sig)) return 2;
  uint8_t*d[3]; srand(3); long id=0; uint8_t all[4096]; long tot=0;
  for(int k=0;k<3;k++){ d[k]=malloc((n[k]+1)/2+1); for(long i=0;i<(n[k]+1)/2;i++)d[k][i]=rand(); d[k]=realloc(d[k],(n[k]+1)/2?(n[k]+1)/2:1);
    for(long i=0;i<n[k];i++){ int v=nib(d[k],i); if(tot&1) all[tot/2]|=v<<4; else all[tot/2]=v; tot++; }
    printf("wr%d=%d\n",k, n[k]? jls_wr_fsr(wr,5,id,d[k],n[k]):0); id+=n[k]; }
  jls_wr_close(wr);
  struct jls_rd_s*rd; if(jls_rd_open(&rd,path)) return 2; int64_t len=0; jls_rd_fsr_length(rd,5,&len);
  uint8_t*o=calloc(len/2+8,1); int rc=jls_rd_fsr(rd,5,0,o,len); long bad=0;
  for(long k=0;k<len&&k<tot;k++){ if(nib(o,k)!=nib(all,k)){ if(bad<3)printf("mismatch at %ld got %d want %d\n",k,nib(o,k),nib(all,k)); bad++; } }
  printf("len=%ld (written %ld) rc=%d bad=%ld\n",(long)len,tot,rc,bad); return bad!=0; }
