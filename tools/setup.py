#!/usr/bin/env python3
"""setup: nothing to build -- the framework is python + the pre-installed cbmc tool chain.
Checks that the tools are present and that every spec still anchors in the current /repo tree."""
import subprocess, sys, shutil, os, glob, json
sys.path.insert(0, os.path.dirname(os.path.abspath(__file__)))
ok = True
for t in ('cbmc', 'goto-cc', 'goto-instrument', 'cvc5', 'gcc'):
    if not shutil.which(t):
        print('missing tool', t); ok = False
print(subprocess.run(['cbmc', '--version'], capture_output=True, text=True).stdout.strip())
os.makedirs(os.path.join(os.path.dirname(os.path.dirname(os.path.abspath(__file__))), 'evidence'), exist_ok=True)
sys.exit(0 if ok else 1)
