#include "jls/writer.h"
#include "jls/reader.h"
#include "jls/format.h"
#include <stdio.h>
static int n_ge, n_total; static int64_t seek_t;
static int32_t acb(void * u, const struct jls_annotation_s * a) { (void) u; n_total++; if (a->timestamp >= seek_t) n_ge++; return 0; }
int main(void) {
    struct jls_wr_s * wr; if (jls_wr_open(&wr, "/tmp/p1/f10.jls")) return 2;
    struct jls_source_def_s src = {.source_id = 1, .name="s", .vendor="v", .model="m", .version="1", .serial_number="1"};
    jls_wr_source_def(wr, &src);
    struct jls_signal_def_s sig = {.signal_id = 1, .source_id = 1, .signal_type = JLS_SIGNAL_TYPE_FSR, .data_type = JLS_DATATYPE_F32, .sample_rate = 1000,
        .annotation_decimate_factor = 10, .name = "x", .units = "V"};
    jls_wr_signal_def(wr, &sig);
    /* timestamps 0..7, then twelve annotations at t=8 (straddling the first 10-entry index chunk), then 9, 10 */
    int expected_ge8 = 0;
    for (int i = 0; i < 8; ++i) jls_wr_annotation(wr, 1, i, 1.0f, JLS_ANNOTATION_TYPE_TEXT, 0, JLS_STORAGE_TYPE_STRING, (const uint8_t*)"a", 0);
    for (int i = 0; i < 12; ++i) { jls_wr_annotation(wr, 1, 8, 1.0f, JLS_ANNOTATION_TYPE_TEXT, 0, JLS_STORAGE_TYPE_STRING, (const uint8_t*)"b", 0); expected_ge8++; }
    for (int i = 9; i < 11; ++i) { jls_wr_annotation(wr, 1, i, 1.0f, JLS_ANNOTATION_TYPE_TEXT, 0, JLS_STORAGE_TYPE_STRING, (const uint8_t*)"c", 0); expected_ge8++; }
    jls_wr_close(wr);
    struct jls_rd_s * rd; if (jls_rd_open(&rd, "/tmp/p1/f10.jls")) return 3;
    seek_t = 8; jls_rd_annotations(rd, 1, 8, acb, NULL);
    jls_rd_close(rd);
    printf("seek t=8: delivered %d, of which >= 8: %d (expected %d), earlier than t: %d (at most 1 allowed)\n", n_total, n_ge, expected_ge8, n_total - n_ge);
    return (n_ge == expected_ge8 && n_total - n_ge <= 1) ? 0 : 1;
}
