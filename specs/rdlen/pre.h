#ifndef VG_RDLEN_PRE_H
#define VG_RDLEN_PRE_H
#include <stdint.h>
#include <stddef.h>
struct jls_core_s;
int32_t vg_model_rd_chunk(struct jls_core_s * self);
#endif
