/* A-FS: ghost file model replacing src/backend_posix.c under CBMC.
 * A file is a byte array with a position; it is observed through skolem witnesses:
 *   vg_off / vg_cell      one arbitrary byte offset and the byte stored there,
 *   vg_hoff / vg_hwin[32] one arbitrary 32-byte window (a chunk header),
 * so a statement proved about the witness holds for every byte / every header of the file.
 * fpos / fend are maintained exactly as backend_posix.c does. */
#ifndef VG_BK_MODEL_H
#define VG_BK_MODEL_H
#include <stdint.h>
#include "jls/backend.h"
extern int64_t vg_off;            /* witness byte offset (never assigned) */
extern uint8_t vg_cell;           /* file[vg_off] */
extern int64_t vg_hoff;           /* witness window offset (never assigned) */
extern uint8_t vg_hwin[32];       /* file[vg_hoff .. vg_hoff+32) */
extern uint64_t vg_nwrites;       /* number of backend writes so far */
extern uint64_t vg_ninplace;      /* ... of which started inside the existing file (fpos < fend) */
extern int64_t vg_wr_pos;         /* position and size of the most recent write */
extern uint32_t vg_wr_count;
extern int64_t vg_ip_pos;         /* position and size of the most recent in-place write */
extern uint32_t vg_ip_count;
extern uint64_t vg_ntrunc, vg_nsync;
extern _Bool vg_cell_rewritten;   /* the witness byte was overwritten while it was already part of the file */
extern _Bool vg_write_forbidden;  /* set by harnesses that prove "no write happens" */
/* the two witnesses describe the same file */
#define VG_FILE_WF ( vg_off >= 0 && vg_off <= (1ll << 58) && vg_hoff >= 0 && vg_hoff <= (1ll << 58) \
    && (!(vg_off >= vg_hoff && vg_off < vg_hoff + 32) || vg_cell == vg_hwin[vg_off - vg_hoff]) )
#endif
