#!/bin/sh
# confirm a seeded change in its scratch worktree: tests pass with it, demo fails with it, demo passes without it
# usage: confirm_mutant.sh <worktree> ; prints a summary line
W=$1
cd $W || exit 2
rm -rf _build
(cmake -G Ninja -S $W -B $W/_build >/dev/null && cmake --build $W/_build >/dev/null 2>&1) || { echo "BUILD-FAILED"; exit 2; }
T=$(cd $W/_build && ctest --timeout 900 2>&1 | grep -E "tests passed|tests failed" | head -1)
cd $W/demo && bash build.sh >/dev/null 2>&1; ./demo >/tmp/demo_with.log 2>&1; RW=$?
cd $W && git stash -q -- src include include_prv 2>/dev/null || git stash -q
cd $W/demo && bash build.sh >/dev/null 2>&1; ./demo >/tmp/demo_without.log 2>&1; RO=$?
cd $W && git stash pop -q
rm -rf $W/_build $W/demo/demo
echo "tests: $T | demo with change exit=$RW | demo without change exit=$RO"
