/* harness for threaded_writer.c -- included at the end of the injected TU; the real msg_ring_buffer.c is linked.
 * Sequential premises of C06 (no interleavings are explored):
 *  - marshalling: what jls_twr_run hands to jls_wr_X equals what the application handed to jls_twr_X
 *    (one arbitrary message, followed by CLOSE, pushed through the real queue and the real dispatch loop);
 *  - lockset: every queue operation happens under the message lock, every jls_wr_* call under the process lock,
 *    locks are never nested or re-acquired, and no function returns holding a lock;
 *  - a send that fails (queue full, drop mode) leaves the queue unchanged. */
#include "vg.h"
_Bool nondet_bool(void); int64_t nondet_i64(void);
/* byte-loop memcpy (the built-in array copy with a symbolic length is far more expensive); bounded by header + payload size */
void * memcpy(void * dst, const void * src, size_t n) { for (size_t i = 0; i < n; ++i) { ((uint8_t *) dst)[i] = ((const uint8_t *) src)[i]; } return dst; }
static int vg_msg_locked, vg_proc_locked;
static int64_t vg_now;
static struct jls_bkt_s { int dummy; } vg_bk;
int jls_bkt_msg_lock(struct jls_bkt_s * self) { (void) self; __CPROVER_assert(!vg_msg_locked && !vg_proc_locked, "C06 lockset: message lock not nested"); vg_msg_locked = 1; return 0; }
int jls_bkt_msg_unlock(struct jls_bkt_s * self) { (void) self; __CPROVER_assert(vg_msg_locked, "C06 lockset: unlock of a held message lock"); vg_msg_locked = 0; return 0; }
int jls_bkt_process_lock(struct jls_bkt_s * self) { (void) self; __CPROVER_assert(!vg_msg_locked && !vg_proc_locked, "C06 lockset: process lock not nested"); vg_proc_locked = 1; return 0; }
int jls_bkt_process_unlock(struct jls_bkt_s * self) { (void) self; __CPROVER_assert(vg_proc_locked, "C06 lockset: unlock of a held process lock"); vg_proc_locked = 0; return 0; }
void jls_bkt_msg_wait(struct jls_bkt_s * self) { (void) self; __CPROVER_assert(!vg_msg_locked && !vg_proc_locked, "C06 lockset: no lock held while waiting"); }
void jls_bkt_msg_signal(struct jls_bkt_s * self) { (void) self; }
void jls_bkt_sleep_ms(uint32_t ms) { (void) ms; __CPROVER_assert(!vg_msg_locked && !vg_proc_locked, "C06 lockset: no lock held while sleeping"); }
int64_t jls_now(void) { vg_now += (1ll << 31); return vg_now; }      /* time advances: the retry loops are bounded */
struct jls_time_counter_s jls_time_counter(void) { struct jls_time_counter_s c; c.value = 0; c.frequency = 1; return c; }
struct jls_bkt_s * jls_bkt_initialize(struct jls_twr_s * wr) { (void) wr; return &vg_bk; }
void jls_bkt_finalize(struct jls_bkt_s * self) { (void) self; }
const char * jls_error_code_name(int ec) { (void) ec; return "?"; }

/* recording stubs of the synchronous writer */
static int vg_called; static uint16_t vg_c_signal, vg_c_meta; static int64_t vg_c_t1, vg_c_t2; static uint32_t vg_c_n; static float vg_c_y;
static int vg_c_at, vg_c_st; static uint8_t vg_c_group; static const uint8_t * vg_c_data; static uint32_t vg_c_enable; static int vg_flushed;
#define VG_WR_LOCKED() __CPROVER_assert(vg_proc_locked && !vg_msg_locked, "C06 lockset: the file state is touched under the process lock only")
int32_t jls_wr_open(struct jls_wr_s ** instance, const char * path) { (void) path; *instance = NULL; return 0; }
int32_t jls_wr_close(struct jls_wr_s * self) { (void) self; return 0; }
int32_t jls_wr_flush(struct jls_wr_s * self) { (void) self; VG_WR_LOCKED(); vg_flushed++; return 0; }
int32_t jls_wr_source_def(struct jls_wr_s * self, const struct jls_source_def_s * s) { (void) self; (void) s; VG_WR_LOCKED(); return 0; }
int32_t jls_wr_signal_def(struct jls_wr_s * self, const struct jls_signal_def_s * s) { (void) self; (void) s; VG_WR_LOCKED(); return 0; }
int32_t jls_wr_user_data(struct jls_wr_s * self, uint16_t chunk_meta, enum jls_storage_type_e st, const uint8_t * data, uint32_t data_size) {
    (void) self; VG_WR_LOCKED(); vg_called = MSG_USER_DATA; vg_c_meta = chunk_meta; vg_c_st = st; vg_c_data = data; vg_c_n = data_size; return 0; }
int32_t jls_wr_fsr(struct jls_wr_s * self, uint16_t signal_id, int64_t sample_id, const void * data, uint32_t data_length) {
    (void) self; VG_WR_LOCKED(); vg_called = MSG_FSR; vg_c_signal = signal_id; vg_c_t1 = sample_id; vg_c_data = data; vg_c_n = data_length; return 0; }
int32_t jls_wr_fsr_omit_data(struct jls_wr_s * self, uint16_t signal_id, uint32_t enable) {
    (void) self; VG_WR_LOCKED(); vg_called = MSG_FSR_OMIT; vg_c_signal = signal_id; vg_c_enable = enable; return 0; }
int32_t jls_wr_annotation(struct jls_wr_s * self, uint16_t signal_id, int64_t timestamp, float y, enum jls_annotation_type_e at, uint8_t group_id,
                          enum jls_storage_type_e st, const uint8_t * data, uint32_t data_size) {
    (void) self; VG_WR_LOCKED(); vg_called = MSG_ANNOTATION; vg_c_signal = signal_id; vg_c_t1 = timestamp; vg_c_y = y; vg_c_at = at; vg_c_group = group_id; vg_c_st = st; vg_c_data = data; vg_c_n = data_size; return 0; }
int32_t jls_wr_utc(struct jls_wr_s * self, uint16_t signal_id, int64_t sample_id, int64_t utc) {
    (void) self; VG_WR_LOCKED(); vg_called = MSG_UTC; vg_c_signal = signal_id; vg_c_t1 = sample_id; vg_c_t2 = utc; return 0; }

#define VG_QSIZE 160
#define VG_PAY_MAX 24
static struct jls_twr_s * vg_mk_twr(void) {
    struct jls_twr_s * t = malloc(sizeof(struct jls_twr_s) + VG_QSIZE);
    __CPROVER_assume(t != NULL);
    t->bk = &vg_bk; t->wr = NULL; t->quit = 0; t->flags = 0; t->flush_send_id = 0; t->flush_processed_id = 0;
    jls_mrb_init(&t->mrb, t->mrb_buffer, VG_QSIZE);
    vg_msg_locked = 0; vg_proc_locked = 0; vg_called = -1;
    return t;
}
static void vg_run_until_closed(struct jls_twr_s * t) {
    struct msg_header_s hdr = { .msg_type = MSG_CLOSE };
    int32_t rc = msg_send_inner(t, &hdr, NULL, 0);
    __CPROVER_assume(rc == 0);
    jls_twr_run(t);
    __CPROVER_assert(!vg_msg_locked && !vg_proc_locked, "C06 lockset: the writer thread ends holding no lock");
    __CPROVER_assert(t->mrb.head == t->mrb.tail, "every queued message was consumed");
}

void h_twr_annotation(void) {
    struct jls_twr_s * t = vg_mk_twr();
    uint16_t signal_id; int64_t ts; float y; uint8_t at, group, st; uint32_t n; uint8_t data[VG_PAY_MAX]; unsigned k;
    __CPROVER_assume(n <= VG_PAY_MAX && k < n && st == JLS_STORAGE_TYPE_BINARY && y == y);
    int32_t rc = jls_twr_annotation(t, signal_id, ts, y, (enum jls_annotation_type_e) at, group, (enum jls_storage_type_e) st, data, n);
    __CPROVER_assert(!vg_msg_locked && !vg_proc_locked, "C06 lockset: the application call returns holding no lock");
    if (rc == 0) {
        vg_run_until_closed(t);
        __CPROVER_assert(vg_called == MSG_ANNOTATION && vg_c_signal == signal_id && vg_c_t1 == ts && vg_c_y == y && vg_c_at == at && vg_c_group == group && vg_c_st == st
                         && vg_c_n == n && vg_c_data[k] == data[k], "C06 marshalling: annotation arguments and payload bytes arrive unchanged");
        VG_REACH(twr_annotation_delivered);
    }
    VG_REACH(twr_annotation_returns);
}
void h_twr_fsr(void) {
    struct jls_twr_s * t = vg_mk_twr();
    uint16_t signal_id; int64_t sample_id; uint32_t n; uint8_t data[VG_PAY_MAX]; unsigned k; uint8_t bits;
    __CPROVER_assume(signal_id < JLS_SIGNAL_COUNT && (bits == 1 || bits == 4 || bits == 8 || bits == 16 || bits == 24 || bits == 32 || bits == 64));
    t->fsr_entry_size_bits[signal_id] = bits;
    __CPROVER_assume(((uint64_t) n * bits + 7) / 8 <= VG_PAY_MAX && n >= 1 && k < (n * bits + 7) / 8);
    _Bool drop; if (drop) { t->flags = JLS_TWR_FLAG_DROP_ON_OVERFLOW; }
    uint32_t head0 = t->mrb.head, count0 = t->mrb.count;
    int32_t rc = jls_twr_fsr(t, signal_id, sample_id, data, n);
    __CPROVER_assert(!vg_msg_locked && !vg_proc_locked, "C06 lockset: the application call returns holding no lock");
    if (rc == 0) {
        vg_run_until_closed(t);
        __CPROVER_assert(vg_called == MSG_FSR && vg_c_signal == signal_id && vg_c_t1 == sample_id && vg_c_n == n && vg_c_data[k] == data[k],
                         "C06 marshalling: FSR arguments and every sample byte arrive unchanged");
        VG_REACH(twr_fsr_delivered);
    } else {
        __CPROVER_assert(t->mrb.head == head0 && t->mrb.count == count0, "C06: a rejected call leaves the queue unchanged");
    }
    VG_REACH(twr_fsr_returns);
}
void h_twr_misc(void) {
    struct jls_twr_s * t = vg_mk_twr();
    unsigned which; uint16_t a; int64_t b, c; uint32_t e; uint8_t st; uint8_t data[VG_PAY_MAX]; uint32_t n; unsigned k;
    __CPROVER_assume(which < 3 && n <= VG_PAY_MAX && k < n && st == JLS_STORAGE_TYPE_BINARY);
    int32_t rc = (which == 0) ? jls_twr_utc(t, a, b, c) : (which == 1) ? jls_twr_fsr_omit_data(t, a, e) : jls_twr_user_data(t, a, (enum jls_storage_type_e) st, data, n);
    __CPROVER_assert(!vg_msg_locked && !vg_proc_locked, "C06 lockset: the application call returns holding no lock");
    if (rc == 0) {
        vg_run_until_closed(t);
        __CPROVER_assert(which != 0 || (vg_called == MSG_UTC && vg_c_signal == a && vg_c_t1 == b && vg_c_t2 == c), "C06 marshalling: UTC arguments arrive unchanged");
        __CPROVER_assert(which != 1 || (vg_called == MSG_FSR_OMIT && vg_c_signal == a && vg_c_enable == e), "C06 marshalling: omit arguments arrive unchanged");
        __CPROVER_assert(which != 2 || (vg_called == MSG_USER_DATA && vg_c_meta == a && vg_c_st == st && vg_c_n == n && vg_c_data[k] == data[k]), "C06 marshalling: user data arrives unchanged");
        VG_REACH(twr_misc_delivered);
    }
    VG_REACH(twr_misc_returns);
}
