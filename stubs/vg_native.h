/* native replay helpers: counterexample inputs arrive as environment variables VG_IN_<name> */
#ifndef VG_NATIVE_H
#define VG_NATIVE_H
#include <stdint.h>
#include <stdio.h>
#include <stdlib.h>
#include <string.h>
static inline uint64_t vg_in_u64(const char * name, uint64_t dflt) {
    char key[128];
    snprintf(key, sizeof(key), "VG_IN_%s", name);
    const char * v = getenv(key);
    if (!v) return dflt;
    if (v[0] == '-') return (uint64_t) strtoll(v, NULL, 0);
    return strtoull(v, NULL, 0);
}
static inline double vg_in_f64(const char * name, double dflt) {
    char key[128];
    snprintf(key, sizeof(key), "VG_IN_%s", name);
    const char * v = getenv(key);
    if (!v) return dflt;
    if (0 == strncmp(v, "bits:", 5)) { uint64_t b = strtoull(v + 5, NULL, 2); double d; memcpy(&d, &b, 8); return d; }
    return strtod(v, NULL);
}
#define VG_FAIL(...) do { printf("REPLAY-FAIL: " __VA_ARGS__); printf("\n"); exit(1); } while (0)
#define VG_CHECK(c, ...) do { if (!(c)) { VG_FAIL(__VA_ARGS__); } } while (0)
#endif
