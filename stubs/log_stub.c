/* A-LOG: logging has no effect on library state.  jls_log_printf is variadic and forwards to a
 * user callback; under CBMC (and in native replays) it is an empty body. */
#include "jls/log.h"
void jls_log_printf(const char * format, ...) { (void) format; }
char const * const jls_log_level_str[JLS_LOG_LEVEL_ALL + 1] = {"E","A","C","E","W","N","I","D","D","D","A"};
char const jls_log_level_char[JLS_LOG_LEVEL_ALL + 1] = {'!','A','C','E','W','N','I','D','D','D','.'};
