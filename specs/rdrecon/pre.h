#ifndef VG_RDRECON_PRE_H
#define VG_RDRECON_PRE_H
#include <stdint.h>
#include <stddef.h>
#endif
