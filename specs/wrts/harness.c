/* harness for wr_ts.c -- included at the end of the injected TU.
 * The core-layer callees are recording stubs that assert the C05 ordering rule at every call:
 * a SUMMARY chunk is written immediately after the INDEX chunk of the same signal, track, level and timestamp,
 * and an INDEX is never followed by anything else.  The recursion of commit() is bounded by the level check
 * (JLS_SUMMARY_LEVEL_COUNT = 16) and fully unwound (--unwinding-assertions): complete for every reachable depth. */
#include "vg.h"
#include <stdlib.h>
int vg_last_kind, vg_last_level; int64_t vg_last_ts; uint32_t vg_last_entries; uint16_t vg_last_signal; int vg_last_track;
uint64_t vg_n_index, vg_n_summary;
int64_t vg_tell;
uint32_t vg_df;
#ifndef VG_TS_LEVELS
#define VG_TS_LEVELS 15      /* highest level that may be allocated in the start state (15 = all) */
#endif

int64_t jls_raw_chunk_tell(struct jls_raw_s * self) { (void) self; return vg_tell; }

int32_t jls_core_wr_index(struct jls_core_s * self, uint16_t signal_id, enum jls_track_type_e track_type, uint8_t level,
                          const uint8_t * payload, uint32_t payload_length) {
    (void) self;
    const struct jls_index_s * idx = (const struct jls_index_s *) payload;
    __CPROVER_assert(vg_last_kind != VG_KIND_INDEX, "C05: an INDEX chunk is immediately followed by its SUMMARY (no second INDEX in between)");
    __CPROVER_assert(level >= 1 && level < JLS_SUMMARY_LEVEL_COUNT, "C05/C10: index level within 1..15");
    __CPROVER_assert(idx->header.entry_count >= 1 && idx->header.entry_count <= vg_df, "C11: an index chunk holds 1..decimate_factor entries");
    __CPROVER_assert(payload_length == sizeof(struct jls_payload_header_s) + idx->header.entry_count * sizeof(struct jls_index_entry_s),
                     "C05: index payload length = header + entry_count entries");
    __CPROVER_assert(idx->header.timestamp == idx->entries[0].timestamp, "C05: index chunk timestamp = timestamp of its first entry");
    __CPROVER_assert(idx->header.entry_size_bits == 128, "C05: index entry size field");
    vg_last_kind = VG_KIND_INDEX; vg_last_level = level; vg_last_ts = idx->header.timestamp; vg_last_entries = idx->header.entry_count;
    vg_last_signal = signal_id; vg_last_track = track_type; vg_n_index++;
    vg_tell += 32 + ((payload_length + 4 + 7) & ~7u);
    return 0;
}

int32_t jls_core_wr_summary(struct jls_core_s * self, uint16_t signal_id, enum jls_track_type_e track_type, uint8_t level,
                            const uint8_t * payload, uint32_t payload_length) {
    (void) self;
    const struct jls_payload_header_s * h = (const struct jls_payload_header_s *) payload;
    __CPROVER_assert(vg_last_kind == VG_KIND_INDEX && vg_last_level == level && vg_last_signal == signal_id && vg_last_track == (int) track_type,
                     "C05: a SUMMARY chunk is written immediately after the INDEX chunk of the same signal, track and level");
    __CPROVER_assert(h->timestamp == vg_last_ts, "C05: INDEX and SUMMARY carry the same timestamp");
    /* observation (not part of C05): on close the level>=2 SUMMARY can hold one entry fewer than its INDEX (the upper index gets the entry, the upper summary does not) */
    __CPROVER_assert(payload_length == sizeof(*h) + h->entry_count * (size_t) (h->entry_size_bits / 8), "C05: summary payload length = header + entry_count entries");
    vg_last_kind = VG_KIND_SUMMARY; vg_n_summary++;
    vg_tell += 32 + ((payload_length + 4 + 7) & ~7u);
    return 0;
}

static struct jls_core_signal_s vg_sig;
static struct jls_core_s vg_core;

/* an arbitrary reachable state of the time-series writer: any subset of levels allocated, each holding fewer than decimate_factor entries
 * (a level is committed as soon as it holds decimate_factor entries), index and summary of a level always in step */
static struct jls_core_ts_s * vg_mk_ts(enum jls_track_type_e track_type) {
    struct jls_core_ts_s * ts = calloc(1, sizeof(*ts));
    __CPROVER_assume(ts != NULL);
    uint32_t df_; int64_t tell_;
    vg_df = df_; vg_tell = tell_;
    __CPROVER_assume(vg_df >= 2 && vg_df <= (1u << 16));
    vg_sig.parent = &vg_core;
    ts->parent = &vg_sig; ts->track_type = track_type; ts->decimate_factor = vg_df;
    size_t esz = (track_type == JLS_TRACK_TYPE_ANNOTATION) ? sizeof(struct jls_annotation_summary_entry_s) : sizeof(struct jls_utc_summary_entry_s);
    _Bool prev = 1;
    for (int l = 1; l < JLS_SUMMARY_LEVEL_COUNT; ++l) {
        _Bool present;
        if (!prev || l > VG_TS_LEVELS) { present = 0; }          /* levels are allocated bottom-up */
        if (present) {
            ts->index[l] = malloc(sizeof(struct jls_payload_header_s) + sizeof(struct jls_index_entry_s) * (size_t) vg_df);
            size_t ssz = sizeof(struct jls_payload_header_s) + (size_t) vg_df * esz; ssz = ((ssz + 7) / 8) * 8;
            ts->summary[l] = malloc(ssz);
            __CPROVER_assume(ts->index[l] != NULL && ts->summary[l] != NULL);
            uint32_t n; __CPROVER_assume(n < vg_df);
            ts->index[l]->header.entry_count = n; ts->index[l]->header.entry_size_bits = 128;
            ts->summary[l]->entry_count = n; ts->summary[l]->entry_size_bits = (uint16_t) (8 * esz);
        }
        prev = present;
    }
    vg_last_kind = VG_KIND_NONE; vg_n_index = 0; vg_n_summary = 0;
    __CPROVER_assume(vg_tell >= 16 && vg_tell < (1ll << 56));
    return ts;
}

void h_ts_anno(void) {
    struct jls_core_ts_s * ts = vg_mk_ts(JLS_TRACK_TYPE_ANNOTATION);
    int64_t timestamp, offset; uint8_t at, group; float y;
    uint32_t n1 = ts->index[1] ? ts->index[1]->header.entry_count : 0;
    int32_t rc = jls_wr_ts_anno(ts, timestamp, offset, (enum jls_annotation_type_e) at, group, y);
    __CPROVER_assert(rc != 0 || vg_n_index == vg_n_summary, "C05: as many SUMMARY chunks as INDEX chunks");
    __CPROVER_assert(rc != 0 || vg_last_kind != VG_KIND_INDEX, "C05: the last chunk written is never a dangling INDEX");
    __CPROVER_assert(rc != 0 || ts->index[1] != NULL, "C11: level 1 exists after the first entry");
    __CPROVER_assert(rc != 0 || (n1 + 1 < vg_df ? (ts->index[1]->header.entry_count == n1 + 1 && ts->index[1]->entries[n1].timestamp == timestamp
                                                   && ts->index[1]->entries[n1].offset == (uint64_t) offset && vg_n_index == 0)
                                                : (ts->index[1]->header.entry_count == 0 && vg_n_index >= 1)),
                     "C11: the entry is appended in order; a full level is written out and restarted");
    { unsigned l; __CPROVER_assume(l >= 1 && l < JLS_SUMMARY_LEVEL_COUNT);
      __CPROVER_assert(rc != 0 || ts->index[l] == NULL || (ts->summary[l] != NULL && ts->index[l]->header.entry_count < vg_df && ts->summary[l]->entry_count == ts->index[l]->header.entry_count),
                       "C11: after a successful call every level again holds fewer than decimate_factor entries, index and summary in step (arbitrary level)"); }
    VG_REACH(ts_anno_returns);
    if (rc == 0 && vg_n_index >= 3) { VG_REACH(ts_anno_three_levels_committed); }
    if (rc != 0) { VG_REACH(ts_anno_error); }
}

void h_ts_utc(void) {
    struct jls_core_ts_s * ts = vg_mk_ts(JLS_TRACK_TYPE_UTC);
    int64_t sample_id, offset, utc;
    int32_t rc = jls_wr_ts_utc(ts, sample_id, offset, utc);
    __CPROVER_assert(rc != 0 || vg_n_index == vg_n_summary, "C05: as many SUMMARY chunks as INDEX chunks");
    __CPROVER_assert(rc != 0 || vg_last_kind != VG_KIND_INDEX, "C05: the last chunk written is never a dangling INDEX");
    { unsigned l; __CPROVER_assume(l >= 1 && l < JLS_SUMMARY_LEVEL_COUNT);
      __CPROVER_assert(rc != 0 || ts->index[l] == NULL || (ts->summary[l] != NULL && ts->index[l]->header.entry_count < vg_df && ts->summary[l]->entry_count == ts->index[l]->header.entry_count),
                       "C12: after a successful call every level again holds fewer than decimate_factor entries, index and summary in step (arbitrary level)"); }
    VG_REACH(ts_utc_returns);
    if (rc == 0 && vg_n_index >= 2) { VG_REACH(ts_utc_two_levels_committed); }
}

void h_ts_close(void) {
    _Bool utc;
    struct jls_core_ts_s * ts = vg_mk_ts(utc ? JLS_TRACK_TYPE_UTC : JLS_TRACK_TYPE_ANNOTATION);
    uint32_t n1 = ts->index[1] ? ts->index[1]->header.entry_count : 0;
    int32_t rc = jls_wr_ts_close(ts);
    __CPROVER_assert(vg_n_index == vg_n_summary && vg_last_kind != VG_KIND_INDEX, "C05: close writes INDEX/SUMMARY pairs only");
    __CPROVER_assert(n1 == 0 || vg_n_index >= 1, "C11: close flushes the pending entries of level 1");
    VG_REACH(ts_close_returns);
    if (vg_n_index >= 3) { VG_REACH(ts_close_flushes_three_levels); }
}
