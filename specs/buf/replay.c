/* native replay of counterexamples for buffer.c against the real, un-injected source */
#include "vg_native.h"
#include "jls/buffer.h"
#include "jls/ec.h"

static int r_buf_realloc(void) {
    size_t alloc = vg_in_u64("alloc", 1 << 20);
    size_t size = vg_in_u64("size", (1 << 20) + 1);
    size_t cur = vg_in_u64("cur", 0);
    struct jls_buf_s b;
    memset(&b, 0, sizeof(b));
    if (alloc > (1ull << 32) || size > (1ull << 33)) { printf("replay: sizes too large for a native run\n"); return 0; }
    b.start = malloc(alloc);
    memset(b.start, 0x5a, alloc);
    if (cur > alloc) cur = alloc;
    b.cur = b.start + cur; b.end = b.cur; b.length = cur; b.alloc_size = alloc;
    printf("replay jls_buf_realloc: alloc_size=%zu cur=%zu request=%zu\n", alloc, cur, size);
    int32_t rc = jls_buf_realloc(&b, size);
    printf("rc=%d alloc_size=%zu\n", rc, b.alloc_size);
    if (rc == 0) {
        VG_CHECK(b.alloc_size >= size, "allocation %zu smaller than the request %zu", b.alloc_size, size);
        VG_CHECK(b.cur >= b.start && b.cur <= b.start + b.alloc_size && (size_t) (b.cur - b.start) == cur,
                 "cursor does not point into the (moved) allocation: start=%p cur=%p", (void *) b.start, (void *) b.cur);
        if (cur < b.alloc_size) { *b.cur = 1; }   /* the next write through the cursor (ASan: use-after-free if stale) */
    } else {
        VG_CHECK(size > (1ull << 31), "request of %zu bytes (alloc_size %zu) refused with rc=%d although memory is available", size, alloc, rc);
    }
    free(b.start);
    return 0;
}

int main(void) { return VG_REPLAY_ENTRY(); }
