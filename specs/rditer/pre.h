/* preamble for the iteration units of src/reader.c (C11 annotations, C13 user data): plain harness, every callee outside reader.c is a stub */
#ifndef VG_RDITER_PRE_H
#define VG_RDITER_PRE_H
#include <stdint.h>
#endif
