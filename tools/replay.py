#!/usr/bin/env python3
"""replay.py <replay.json> : re-run the native replay of a recorded counterexample against the current /repo sources"""
import sys, json, os
sys.path.insert(0, os.path.dirname(os.path.abspath(__file__)))
sys.argv_saved = sys.argv; 
import check
def main():
    path = sys.argv_saved[1]
    rep = json.load(open(path))
    mods = check.load_modules()
    u = [u for m in mods for u in m['units'] if u['name'] == rep['unit']]
    if not u:
        print('unit %s no longer exists' % rep['unit']); sys.exit(2)
    ok, txt = check.native_replay(u[0], rep.get('inputs', {}), path)
    print(txt)
    print('obligation:', rep['obligation'], '-', rep['description'])
    if ok is None:
        print('no native replay driver for this unit: the replay file carries the verifier output only'); sys.exit(2)
    print('REPRODUCED' if ok else 'NOT REPRODUCED'); sys.exit(1 if ok else 0)
if __name__ == '__main__':
    main()
