#include "jls.h"
#include "jls/writer.h"
#include "jls/reader.h"
#include "jls/copy.h"
#include <stdio.h>
#include <stdlib.h>
#include <string.h>
#include <unistd.h>
/* C17: a u8 signal with constant (automatically omitted) blocks is copied; the copy must read back the same samples */
int main(void){ const char*src="/tmp/p1/co_src.jls",*dst="/tmp/p1/co_dst.jls"; unlink(src); unlink(dst);
  struct jls_wr_s*wr; if(jls_wr_open(&wr,src)) return 2;
  struct jls_source_def_s s={.source_id=1,.name="s",.vendor="v",.model="m",.version="1",.serial_number="1"}; jls_wr_source_def(wr,&s);
  struct jls_signal_def_s sig={.signal_id=5,.source_id=1,.signal_type=JLS_SIGNAL_TYPE_FSR,.data_type=JLS_DATATYPE_U8,.sample_rate=1000,.samples_per_data=64,.sample_decimate_factor=32,.entries_per_summary=64,.summary_decimate_factor=4,.name="x",.units="u"};
  if(jls_wr_signal_def(wr,&sig)) return 2;
  static uint8_t d[6400]; for(int i=0;i<6400;i++) d[i]=(i/640)%2 ? 7 : (uint8_t)(i*13);   /* alternating varying / constant stretches */
  if(jls_wr_fsr(wr,5,0,d,6400)) return 2; jls_wr_close(wr);
  int32_t rc=jls_copy(src,dst,NULL,NULL,NULL,NULL); printf("copy rc=%d\n",rc);
  struct jls_rd_s*a,*b; if(jls_rd_open(&a,src)||jls_rd_open(&b,dst)) return 2;
  int64_t na=0,nb=0; jls_rd_fsr_length(a,5,&na); jls_rd_fsr_length(b,5,&nb); printf("length original %ld copy %ld\n",(long)na,(long)nb);
  static uint8_t oa[6400],ob[6400]; int ra=jls_rd_fsr(a,5,0,oa,na<6400?na:6400), rb=jls_rd_fsr(b,5,0,ob,nb<6400?nb:6400); long bad=0,bado=0;
  for(long i=0;i<6400 && i<na && i<nb;i++){ if(oa[i]!=d[i]) bado++; if(oa[i]!=ob[i]){ if(bad<3)printf("sample %ld: original %u copy %u\n",i,oa[i],ob[i]); bad++; } }
  printf("read rc original %d copy %d; original differs from written in %ld samples; copy differs from original in %ld samples\n",ra,rb,bado,bad);
  return (bad||na!=nb)?1:0; }
