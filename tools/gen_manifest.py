#!/usr/bin/env python3
"""generate MANIFEST.json from the claim table below (kept next to the specs so it is updated with them)"""
import json, os, glob
V = os.path.dirname(os.path.dirname(os.path.abspath(__file__)))
TECH = "contract-based deductive verification: CBMC 6.11 function/loop contracts (goto-instrument --dfcc enforce/replace) on the injected real sources"

CLAIMS = {
 'C04': dict(cat='proof', ref='DESIGN.md §6 C04',
   text='every accept path of the raw layer (jls_raw_rd_header, jls_raw_rd_payload) is proved to return success only after the stored CRC was compared with the CRC recomputed over exactly the 28 header bytes / payload_length payload bytes; no header field is exposed on failure; with C18 the compared function is CRC-32C',
   note='assumed: A-CRC-HD (CRC-32C detects <=3 flipped bits / one burst <=32 bits at these lengths: property of the polynomial), A-FS file model, header payload_length <= 0xfffffff0; reader layers above raw (caches in core.c) are covered only by their own units listed in the evidence'),
 'C05': dict(cat='proof', ref='DESIGN.md §6 C05',
   text='per-write conformance: jls_raw_wr / wr_header / wr_payload proved to lay out header (little-endian image, CRC over 28 bytes, payload_prev_length of the physically preceding chunk), payload, zero padding to 8 bytes and little-endian payload CRC over exactly payload_length bytes, for every payload length and file position; chunk-list link rewrite proved (jls_core_update_item_head)',
   note='the walk of a whole file by an independent decoder is NOT one machine-checked theorem: per-write facts + heads-sync invariant, composition argued in DESIGN.md; A-FS file model (witness byte + witness header window)'),
 'C08': dict(cat='proof', ref='DESIGN.md §6 C08',
   text='jls_mrb_alloc/peek/pop/clear contracts discharged for every capacity 16..2^30, head/tail and size: region inside the buffer, disjoint from the live span, live bytes unchanged, appended at the end of the live span, completeness with usable capacity buf_size-10, peek/pop return the record at the start of the live span and advance exactly past it without writing',
   note='the record-chain invariant (every live record well formed, not only the oldest) is a BOUNDED stand-in in the thorough tier (all sequences of 5 alloc/pop operations, capacity 16..24); count<2^32-1 assumed'),
 'C10': dict(cat='proof', ref='DESIGN.md §6 C10',
   text='gate functions (jls_core_signal_validate[_typed]) proved to return 0 only for defined ids of the right type and error codes otherwise; every unit of every other property additionally discharges CBMC\'s memory-safety, overflow, division and termination (loop variant) obligations for the function it enforces',
   note='per-function safety, not a theorem over all call sequences; functions without a unit are not covered (listed in evidence.not_covered); whole-session leak freedom not proved'),
 'C13': dict(cat='proof', ref='DESIGN.md §6 C13',
   text='buffer codec proved: jls_buf_wr_u8/u16/u32/i64/f32/zero append exactly the little-endian bytes and keep earlier bytes; jls_buf_rd_u8/u16/u32/skip decode them (inverse) and fail with EMPTY exactly when too few bytes remain; jls_buf_realloc grows, preserves content and cursor offsets; undefined-signal gate proved',
   note='definition payload layout (writer.c) and parse (core.c), strings (jls_buf_wr_str/rd_str) and user-data tag packing are covered only if their units are listed in the evidence; file composition assumed'),
 'C14': dict(cat='proof', ref='DESIGN.md §6 C14',
   text='the in-place header rewrite is proved to change only item_next (bytes 0..7) and the header CRC (bytes 28..31) of exactly one 32-byte header of a chunk already in the file, under the heads-sync invariant, which it re-establishes; raw writes proved append-only otherwise; witness byte outside the written range unchanged',
   note='heads-sync is an instance invariant over a witness header window (skolem); public writer functions are covered only where their units are listed in the evidence; A-FS'),
 'C16': dict(cat='proof', ref='DESIGN.md §6 C16',
   text='jls_core_signal_def_align proved over the full accepted domain (all 15 data types, all four parameters up to the validated maximum 2^24): minimums, sdf multiple of 256/bits, spd multiple of sdf, eps multiple of spd/sdf and of sdf2; defaults table; round_up_to_multiple; arithmetic lemmas proved by cvc5 int-blasting',
   note='idempotence (normalising normalised parameters changes nothing) is a separate thorough-tier unit (U-def-idem); loop termination by decreases clause'),
 'C18': dict(cat='proof', ref='DESIGN.md §6 C18',
   text='the SSE4.2 jls_crc32c (three loops) is proved equal to the bit-serial CRC-32C fold for every length <= 2^24 and all 8 alignments by loop contracts in lock step with the reference; jls_crc32c_hdr proved equal to the reference over 28 bytes',
   note='A-ISA: semantics of the crc32 instruction given as the bit-serial step; table-driven build (crc32c_sw.c) covered only by the units listed in evidence; ARM NEON file not compiled on this target'),
 'C20': dict(cat='proof', ref='DESIGN.md §6 C20',
   text='jls_statistics_add/combine/compute_f32/compute_f64/var/reset contracts over IEEE-754 doubles: count exact, min/max exact (bound for an arbitrary witness sample + attained), variance accumulator never negative / never decreasing, min<=mean<=max, empty operand is the identity bit for bit, result may overwrite either operand',
   note='magnitudes <= 2^500, counts < 2^52; "equal up to rounding" across groupings is a forward error bound and is NOT decided; jls_statistics_add (1000 s of FP SAT) runs in the thorough tier only'),
}

NOT_APPLICABLE = {
 'C07': 'liveness/deadlock/flush-close semantics under every schedule: CBMC contracts have no interleaving or fairness semantics; the sequential facts are reported under C06/C10 where built',
}

def main():
    props = [json.loads(l) for l in open(os.path.join(V, 'properties.jsonl'))]
    units = {}
    for uj in glob.glob(os.path.join(V, 'specs', '*', 'units.json')):
        for u in json.load(open(uj))['units']:
            for p in u.get('properties', []):
                units.setdefault(p, []).append(u['name'])
    checks = []
    na = []
    for p in props:
        pid = p['id']
        if pid in CLAIMS and units.get(pid):
            c = CLAIMS[pid]
            checks.append(dict(property_id=pid, quick_cmd='python3 tools/check.py %s quick' % pid,
                               thorough_cmd='python3 tools/check.py %s thorough' % pid,
                               evidence_file='evidence/%s.json' % pid,
                               replay_cmd_template='python3 tools/replay.py {path}', engine='cbmc-contracts',
                               level_claimed=dict(category=c['cat'], text=c['text'], design_ref=c['ref']),
                               level_note=c['note'], technique=TECH))
        else:
            na.append(dict(property_id=pid, reason=NOT_APPLICABLE.get(pid, 'no contract unit carries this property yet in this round (see DESIGN.md §6 for the planned units); not claimed rather than decided by another technique')))
    m = dict(version=1, setup_cmd='python3 tools/setup.py',
             hooks=dict(guard='JLS_VERIF',
                        enable='no hook is compiled into /repo: contracts, loop invariants and ghost statements are injected mechanically into a scratch copy of the current /repo/src/*.c on every run (tools/inject.py; -DJLS_VERIF=1 is passed to goto-cc only)',
                        baseline_off_cmd='sh tools/baseline.sh', source_commits=[], add_only=True),
             engines=[dict(name='cbmc-contracts', path='tools/check.py', serves_properties=[c['property_id'] for c in checks],
                           kind_free_text='CBMC 6.11 code contracts (goto-instrument --dfcc enforce/replace, loop contracts) on the real sources; SAT (cadical) and cvc5 int-blasting back ends')],
             checks=checks, not_applicable=na,
             notes='fix: commits in /repo and known findings are listed in known_findings.json; seeded changes used to test the checks are under seeded/')
    json.dump(m, open(os.path.join(V, 'MANIFEST.json'), 'w'), indent=1)
    print('claimed:', [c['property_id'] for c in checks]); print('not applicable:', [x['property_id'] for x in na])

if __name__ == '__main__':
    main()
