/* harnesses for wr_fsr.c -- included at the end of the injected TU */
#include "vg.h"
#include <stdlib.h>
int vg_mode; uint64_t vg_fw_total, vg_fw_fill, vg_fw_data, vg_fw_shifted, vg_fw_calls; const void * vg_fw_data_ptr; uint32_t vg_fw_data_n; size_t vg_wb;
int64_t vg_next0;

static struct jls_core_fsr_s * vg_mk_fsr(void) {
    struct jls_core_fsr_s * f = malloc(sizeof(*f));
    struct jls_core_signal_s * sig = malloc(sizeof(*sig));
    __CPROVER_assume(f != NULL && sig != NULL);
    f->parent = sig;
    f->data = malloc(sizeof(struct jls_fsr_data_s) + 64);
    __CPROVER_assume(f->data != NULL);
    return f;
}

#ifndef VG_DT
#define VG_DT JLS_DATATYPE_I16
#endif
void h_fsr_gapdup(void) {
    struct jls_core_fsr_s * f = vg_mk_fsr();
    int64_t sample_id; uint32_t n;
    f->parent->signal_def.data_type = VG_DT;      /* one data type per unit variant: constant, so symex prunes the other branches */
    uint32_t bits = VG_FBITS(f);
    __CPROVER_assume(vg_bits_ok(bits) && n <= VG_N_MAX);
    uint8_t * d = malloc((size_t) ((vg_nbits(n, bits) + 7) / 8));
    __CPROVER_assume(n == 0 || d != NULL);
    int32_t rc = jls_wr_fsr_data(f, sample_id, d, n);
    VG_REACH(gapdup_returns);
    if (rc == 0 && sample_id > vg_next0 + 100000 && bits == 16) { VG_REACH(gapdup_large_gap_i16); }
    if (rc == 0 && sample_id < vg_next0 && sample_id + n > vg_next0 && bits == 4 && ((vg_next0 - sample_id) & 1)) { VG_REACH(gapdup_odd_u4_overlap); }
    if (rc == 0 && sample_id < vg_next0 && bits == 1 && vg_fw_shifted > 0) { VG_REACH(gapdup_u1_shifted_overlap); }
    if (rc == 0 && sample_id < vg_next0 && sample_id + n <= vg_next0 && n > 0) { VG_REACH(gapdup_total_overlap); }
}

/* ---- C15 ---- recording stubs for the core layer (their real behaviour is the subject of the corewr units) */
uint64_t vg_s1_calls, vg_wd_calls; int64_t vg_s1_pos, vg_s1_ts, vg_tell; uint32_t vg_s1_count, vg_wd_len; uint8_t vg_s1_byte, vg_first_byte;
const uint8_t * vg_wd_payload; uint16_t vg_wd_signal; int vg_wd_track; size_t vg_wb2;
int32_t nondet_i32(void);
int64_t jls_raw_chunk_tell(struct jls_raw_s * self) { (void) self; return vg_tell; }
int32_t jls_core_wr_data(struct jls_core_s * self, uint16_t signal_id, enum jls_track_type_e track_type, const uint8_t * payload, uint32_t payload_length) {
    (void) self;
    if (nondet_i32()) return JLS_ERROR_IO;
    vg_wd_calls++; vg_wd_payload = payload; vg_wd_len = payload_length; vg_wd_signal = signal_id; vg_wd_track = track_type;
    vg_tell += 32 + ((payload_length + 4 + 7) & ~7u);
    return 0;
}

void h_fsr_wrdata(void) {
    struct jls_core_fsr_s * f = malloc(sizeof(*f));
    struct jls_core_signal_s * sig = malloc(sizeof(*sig));
    __CPROVER_assume(f != NULL && sig != NULL);
    f->parent = sig;
    sig->parent = malloc(sizeof(struct jls_core_s)); __CPROVER_assume(sig->parent != NULL);
    uint32_t bits = VG_FBITS(f);
    __CPROVER_assume(vg_bits_ok(bits) && sig->signal_def.samples_per_data >= 10 && sig->signal_def.samples_per_data <= (1u << 25));
    f->data_length = sig->signal_def.samples_per_data;
    f->data = malloc(sizeof(struct jls_fsr_data_s) + (size_t) (vg_nbits(f->data_length, bits) / 8) + 8);
    __CPROVER_assume(f->data != NULL);
    int32_t rc = wr_data(f);
    VG_REACH(wrdata_returns);
    if (rc == 0 && vg_s1_pos == 0 && vg_s1_count > 100 && bits == 4) { VG_REACH(wrdata_auto_omitted_u4); }
    if (rc == 0 && vg_s1_pos == 0 && bits == 32) { VG_REACH(wrdata_omitted_on_request); }
    if (rc == 0 && vg_s1_pos != 0) { VG_REACH(wrdata_stored); }
}

void h_memconst(void) {
    size_t n; uint8_t c;
    __CPROVER_assume(n >= 1);
    uint8_t * m = malloc(n);
    __CPROVER_assume(m != NULL);
    _Bool r = is_mem_const(m, n, c);
    VG_REACH(memconst_returns);
    if (r && n > 1000) { VG_REACH(memconst_true); }
}
