/* model of the raw layer for the reader-side units above it.  Its facts are the contracts proved on the real src/raw.c
 * (U-raw-rdhdr, U-raw-rdpay, U-raw-seek): a chunk is delivered (rc 0) only with a CRC-valid header and payload whose size on disk
 * fits the caller's buffer; TOO_BIG leaves the header cached; the content of a CRC-valid chunk is otherwise arbitrary. */
#ifndef VG_RAW_RD_MODEL_H
#define VG_RAW_RD_MODEL_H
#include <stdint.h>
#include "jls/format.h"
struct jls_raw_s { int64_t offset; int64_t fend; int64_t hdr_offset; struct jls_chunk_header_s hdr; };
extern uint64_t vg_raw_nrd, vg_raw_nseek, vg_raw_nwr;
extern int64_t vg_last_seek;
static inline uint32_t vg_disk_size(uint32_t n) { return n ? ((n + 4u + 7u) & ~7u) : 0u; }
#endif
