/* common verification macros */
#ifndef VG_H
#define VG_H
/* reachability marker: MUST be reported FAILURE by cbmc (vacuity guard); the runner treats SUCCESS as vacuous */
#define VG_REACH(tag)  __CPROVER_assert(0, "vg_reach:" #tag)
#endif
