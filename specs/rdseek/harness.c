/* bounded harness for jls_core_fsr_seek: index levels 1..VG_TOP on disk (any subset of head offsets), any requested level and sample id;
 * fixed signal geometry (samples_per_data 64, sample_decimate_factor 16, entries_per_summary 8, summary_decimate_factor 2: one index
 * entry covers 64 / 128 / 256 samples at level 1 / 2 / 3); index chunks with arbitrary start, 1..4 entries and arbitrary offsets.
 * Models: jls_raw_chunk_seek records the position, jls_core_rd_chunk delivers the index chunk of the level being visited. */
#include "vg.h"
#include <stdlib.h>
#ifndef VG_SIG
#define VG_SIG 5
#endif
#ifndef VG_TOP
#define VG_TOP 3
#endif
#ifndef VG_KF23
#define VG_KF23 0
#endif
int32_t nondet_i32(void); int64_t nondet_i64(void); uint32_t nondet_u32(void); _Bool nondet_bool(void);
static int64_t vg_expect;         /* offset the next seek has to go to */
static int vg_seeks, vg_reads, vg_wrong_seek, vg_range_error, vg_io_error, vg_last_seek_ok;
static int vg_lvl;                /* level of the index chunk at the current position */
static int64_t vg_sample_id;
static int vg_dummy_raw;
static int64_t vg_step(int lvl) { return lvl == 1 ? 64 : lvl == 2 ? 128 : 256; }

int32_t jls_raw_chunk_seek(struct jls_raw_s * self, int64_t offset) {
    (void) self;
    vg_seeks++;
    vg_last_seek_ok = (offset == vg_expect);
    if (offset != vg_expect) { vg_wrong_seek++; }
    if (nondet_bool()) { vg_io_error++; return JLS_ERROR_IO; }
    return 0;
}

int32_t vg_model_rd_chunk(struct jls_core_s * self) {
    if (nondet_bool()) { vg_io_error++; return JLS_ERROR_MESSAGE_INTEGRITY; }
    vg_reads++;
    uint32_t count = nondet_u32(); __CPROVER_assume(count >= 1 && count <= 4);
    int64_t ts = nondet_i64();
    __CPROVER_assume(ts > -(1ll << 60) && ts <= vg_sample_id);    /* an index chunk on the path to a sample starts at or before it (file structure) */
    free(self->buf->start);
    uint8_t * p = malloc(sizeof(struct jls_fsr_index_s) + 4 * sizeof(int64_t) + 8);
    __CPROVER_assume(p != NULL);
    self->buf->start = p; self->buf->cur = p; self->buf->length = sizeof(struct jls_fsr_index_s) + count * sizeof(int64_t); self->buf->end = p + self->buf->length;
    struct jls_fsr_index_s * r = (struct jls_fsr_index_s *) p;
    r->header.timestamp = ts; r->header.entry_count = count; r->header.entry_size_bits = 64; r->header.rsv16 = 0;
    self->chunk_cur.hdr.tag = JLS_TAG_TRACK_FSR_INDEX;
    int64_t idx = (vg_sample_id - ts) / vg_step(vg_lvl);
    if (idx >= count) { vg_range_error++; vg_expect = -1; }
    else { vg_expect = r->offsets[idx]; }
    vg_lvl--;
    return 0;
}

void h_fsr_seek(void) {
    struct jls_core_s * c = malloc(sizeof(*c));
    __CPROVER_assume(c != NULL);
    struct jls_buf_s * b = malloc(sizeof(*b)); __CPROVER_assume(b != NULL);
    b->start = malloc(8); __CPROVER_assume(b->start != NULL);
    struct jls_core_signal_s * si = &c->signal_info[VG_SIG];
    __CPROVER_assume(c->buf == b && c->raw == (struct jls_raw_s *) &vg_dummy_raw
        && si->signal_def.signal_id == VG_SIG && si->signal_def.signal_type == JLS_SIGNAL_TYPE_FSR && si->chunk_def.offset == 64
        && si->signal_def.samples_per_data == 64 && si->signal_def.sample_decimate_factor == 16
        && si->signal_def.entries_per_summary == 8 && si->signal_def.summary_decimate_factor == 2);
    int64_t * heads = si->tracks[JLS_TRACK_TYPE_FSR].head_offsets;
    int top = -1;
    __CPROVER_assume(heads[4] == 0 && heads[5] == 0 && heads[6] == 0 && heads[7] == 0 && heads[8] == 0 && heads[9] == 0 && heads[10] == 0 && heads[11] == 0
        && heads[12] == 0 && heads[13] == 0 && heads[14] == 0 && heads[15] == 0 && (VG_TOP >= 3 || heads[3] == 0));
    if (heads[3]) top = 3; else if (heads[2]) top = 2; else if (heads[1]) top = 1; else if (heads[0]) top = 0;
    uint8_t level; int64_t sample_id;
    __CPROVER_assume(level <= 15 && sample_id > -(1ll << 60) && sample_id < (1ll << 60));
    vg_sample_id = sample_id; vg_lvl = top; vg_expect = (top >= 0) ? heads[top] : 0;
    vg_seeks = 0; vg_reads = 0; vg_wrong_seek = 0; vg_range_error = 0; vg_io_error = 0; vg_last_seek_ok = 0;
    int32_t rc = jls_core_fsr_seek(c, VG_SIG, level, sample_id);
    if (top < 0) {
        __CPROVER_assert(rc != 0 && vg_seeks == 0, "a signal without any stored chunk is reported as not found");
    }
#if VG_KF23
    /* known finding F23: success although no chunk of the requested level exists (the level-0 head is sought instead) */
    __CPROVER_assert(rc != 0 || top >= (int) level, "C01: success means the position is at a chunk of the requested level");
#endif
    if (top >= (int) level) {
        __CPROVER_assert(vg_wrong_seek == 0, "C01: every seek goes to the head of the top level, then to the entry of the index just read that covers the sample");
        __CPROVER_assert(rc != 0 || (vg_lvl == (int) level && vg_seeks >= 1 && vg_last_seek_ok && vg_range_error == 0 && vg_io_error == 0),
                         "C01: success = descended to the requested level, positioned at the entry that covers the sample, no error swallowed");
        __CPROVER_assert(rc == 0 || vg_range_error != 0 || vg_io_error != 0, "C01: the lookup fails only when a read fails or an index chunk does not cover the sample");
    }
    VG_REACH(seek_returns);
    if (rc == 0 && top == 3 && level == 1) { VG_REACH(seek_two_levels_down); }
    if (rc == 0 && top == 0 && level == 1) { VG_REACH(seek_f23_shape); }
}
