#!/usr/bin/env python3
"""
inject.py -- mechanical injection of CBMC contract clauses / loop contracts /
ghost statements into a copy of a real /repo source file.

Nothing is removed from the translation unit.  What is added:
  * a preamble  (#include of the module's pre.h) at the very top,
  * contract clauses between a function's declarator and its body,
  * loop contracts between a loop header and its body,
  * ghost statements at @entry / loop @body-begin / @body-end / @after,
  * top-level text immediately before a named function definition (@before),
  * a trailer (#include of the harness) at the very end.
Self-check: deleting the inserted byte ranges gives back the original file
byte for byte; otherwise InjectError (exit 2 at the runner: UNDECIDED).

Spec syntax (spec.txt):
  @function NAME            contract clauses for the definition of NAME
  @loop NAME#K              loop contract for the K-th loop (1-based, textual) in NAME
  @ghost NAME@entry         statements right after the opening brace of NAME
  @ghost NAME#K@body-begin  right after the opening brace of the loop body
  @ghost NAME#K@body-end    right before the closing brace of the loop body
  @ghost NAME#K@after       right after the loop statement
  @ghost NAME@ret           right before every `return` of NAME (wrapped in a block) and at the closing brace
  @ghost NAME@ret:K         right before the K-th `return` (textual order) only
  @before NAME              top-level text before the definition of NAME
  @loops NAME N             must-fire: NAME contains exactly N loops
  @unstatic NAME            drop `static` (and `inline`) from the definition of NAME
  each block ends with a line `@end` (except @loops/@unstatic, which are one line)
"""
import re, sys, hashlib

class InjectError(Exception):
    pass

# ----------------------------------------------------------------------------
# tokenizer: comment / string / char / preprocessor aware
# ----------------------------------------------------------------------------
def tokenize(src):
    """returns list of (kind, text, start) for non-trivia tokens.
    kinds: 'id', 'num', 'str', 'chr', 'p' (punctuation, single char)"""
    toks = []
    i, n = 0, len(src)
    bol = True  # at beginning of line (only whitespace so far)
    while i < n:
        c = src[i]
        if c == '\n':
            bol = True; i += 1; continue
        if c in ' \t\r\f\v':
            i += 1; continue
        if src.startswith('//', i):
            j = src.find('\n', i)
            i = n if j < 0 else j
            continue
        if src.startswith('/*', i):
            j = src.find('*/', i + 2)
            if j < 0: raise InjectError('unterminated comment')
            i = j + 2
            continue
        if c == '#' and bol:
            # preprocessor directive incl. continuation lines and comments inside
            j = i
            while j < n:
                if src[j] == '\\' and j + 1 < n and src[j+1] == '\n':
                    j += 2; continue
                if src.startswith('/*', j):
                    k = src.find('*/', j + 2)
                    if k < 0: raise InjectError('unterminated comment in directive')
                    j = k + 2; continue
                if src[j] == '\n':
                    break
                j += 1
            i = j
            continue
        bol = False
        if c == '"':
            j = i + 1
            while j < n and src[j] != '"':
                if src[j] == '\\': j += 1
                j += 1
            toks.append(('str', src[i:j+1], i)); i = j + 1; continue
        if c == "'":
            j = i + 1
            while j < n and src[j] != "'":
                if src[j] == '\\': j += 1
                j += 1
            toks.append(('chr', src[i:j+1], i)); i = j + 1; continue
        if c.isalpha() or c == '_':
            j = i + 1
            while j < n and (src[j].isalnum() or src[j] == '_'): j += 1
            toks.append(('id', src[i:j], i)); i = j; continue
        if c.isdigit():
            j = i + 1
            while j < n and (src[j].isalnum() or src[j] in '._'): j += 1
            toks.append(('num', src[i:j], i)); i = j; continue
        toks.append(('p', c, i)); i += 1
    return toks

def match_forward(toks, k, open_c, close_c):
    """toks[k] is open_c; return index of matching close_c"""
    depth = 0
    for j in range(k, len(toks)):
        if toks[j][0] == 'p':
            if toks[j][1] == open_c: depth += 1
            elif toks[j][1] == close_c:
                depth -= 1
                if depth == 0: return j
    raise InjectError('unbalanced %s%s' % (open_c, close_c))

KEYWORDS = {'if', 'for', 'while', 'switch', 'return', 'sizeof', 'do', 'else'}

def find_functions(toks):
    """top-level function definitions: name -> dict(name_idx, lparen, rparen, lbrace, rbrace, decl_start_idx)"""
    funcs = {}
    depth = 0
    k = 0
    last_top_end = -1   # token index of the last top-level ';' or '}'
    while k < len(toks):
        kind, text, pos = toks[k]
        if kind == 'p' and text == '{':
            # is this a function body?  previous token must be ')' at depth 0
            if depth == 0 and k > 0 and toks[k-1] == ('p', ')', toks[k-1][2]):
                # find matching '(' backwards
                d = 0; j = k - 1
                while j >= 0:
                    if toks[j][0] == 'p' and toks[j][1] == ')': d += 1
                    elif toks[j][0] == 'p' and toks[j][1] == '(':
                        d -= 1
                        if d == 0: break
                    j -= 1
                if j > 0 and toks[j-1][0] == 'id' and toks[j-1][1] not in KEYWORDS:
                    name = toks[j-1][1]
                    rb = match_forward(toks, k, '{', '}')
                    if name in funcs:
                        raise InjectError('function %s defined twice (conditional compilation?)' % name)
                    funcs[name] = dict(name_idx=j-1, lparen=j, rparen=k-1, lbrace=k, rbrace=rb,
                                       decl_start=last_top_end + 1)
                    last_top_end = rb
                    k = rb + 1
                    continue
            rb = match_forward(toks, k, '{', '}')
            # struct/enum/initializer at top level: skip as a unit
            if depth == 0:
                k = rb + 1
                continue
        if kind == 'p' and text == ';' and depth == 0:
            last_top_end = k
        k += 1
    return funcs

def find_loops(toks, f):
    """loops in textual order inside function f -> list of dicts
       (kw_idx, contract_pos_tok (insert after this token), body_l, body_r (or None), end_tok)"""
    loops = []
    k = f['lbrace'] + 1
    end = f['rbrace']
    do_stack = []   # (loop_index, rbrace_of_do_body)
    while k < end:
        kind, text, pos = toks[k]
        if kind == 'id' and text in ('for', 'while'):
            if toks[k+1][1] != '(':
                raise InjectError('loop keyword without ( at %d' % pos)
            rp = match_forward(toks, k+1, '(', ')')
            # tail of a do-while?
            if text == 'while' and do_stack and do_stack[-1][1] == k - 1:
                li, _ = do_stack.pop()
                loops[li]['contract_after'] = rp
                loops[li]['end_tok'] = rp + 1  # the ';'
                k = rp + 1
                continue
            L = dict(kw=k, contract_after=rp, body_l=None, body_r=None, end_tok=None)
            if toks[rp+1][0] == 'p' and toks[rp+1][1] == '{':
                L['body_l'] = rp + 1
                L['body_r'] = match_forward(toks, rp+1, '{', '}')
                L['end_tok'] = L['body_r']
            loops.append(L)
            k = rp + 1
            continue
        if kind == 'id' and text == 'do':
            if toks[k+1][1] != '{':
                raise InjectError('do without block at %d' % pos)
            rb = match_forward(toks, k+1, '{', '}')
            L = dict(kw=k, contract_after=None, body_l=k+1, body_r=rb, end_tok=None)
            loops.append(L)
            do_stack.append((len(loops)-1, rb))
            k += 2
            continue
        k += 1
    return loops

# ----------------------------------------------------------------------------
# spec parsing
# ----------------------------------------------------------------------------
def parse_spec(text):
    items = []   # (kind, target, body)
    lines = text.split('\n')
    i = 0
    while i < len(lines):
        ln = lines[i].rstrip()
        s = ln.strip()
        if not s or s.startswith('#!') or (s.startswith('# ') or s == '#'):
            i += 1; continue
        if not s.startswith('@'):
            raise InjectError('spec line %d: expected @directive, got %r' % (i+1, s))
        parts = s.split()
        d = parts[0]
        if d == '@import':
            items.append(('import', parts[1], parts[3])); i += 1; continue
        if d == '@loops':
            items.append(('loops', parts[1], int(parts[2]))); i += 1; continue
        if d == '@unstatic':
            items.append(('unstatic', parts[1], None)); i += 1; continue
        if d in ('@function', '@loop', '@ghost', '@before'):
            body = []
            i += 1
            while i < len(lines) and lines[i].strip() != '@end':
                body.append(lines[i]); i += 1
            if i >= len(lines):
                raise InjectError('spec: %s %s not terminated by @end' % (d, parts[1]))
            i += 1
            items.append((d[1:], s.split(None, 1)[1].strip(), '\n'.join(body)))
            continue
        raise InjectError('spec line %d: unknown directive %s' % (i+1, d))
    return items

ASSIGN_RE = re.compile(r'(?<![=!<>+\-*/%&|^])(=|\+=|-=|\*=|/=|%=|&=|\|=|\^=|<<=|>>=)(?!=)')

TYPEWORDS = {'else','unsigned','signed','const','volatile','static','uint8_t','uint16_t','uint32_t','uint64_t',
             'int8_t','int16_t','int32_t','int64_t','size_t','int','char','double','float','long','short',
             'struct','_Bool','bool'}

def check_ghost(body, where):
    """ghost statements may only assign lvalues rooted at a vg_ identifier, and may not assume"""
    if '__CPROVER_assume' in body:
        raise InjectError('%s: __CPROVER_assume is not allowed in ghost fragments' % where)
    b = re.sub(r'/\*.*?\*/', ' ', body, flags=re.S)
    b = re.sub(r'//[^\n]*', ' ', b)
    for stmt in re.split(r'[;{}]', b):
        st = stmt.strip()
        if not st: continue
        # skip a leading (else) if (...) / for (...) header
        while True:
            mm = re.match(r'\s*(else\s+)?(if|while)\s*\(', st)
            if not mm: break
            d = 0; j = mm.end() - 1
            while j < len(st):
                if st[j] == '(': d += 1
                elif st[j] == ')':
                    d -= 1
                    if d == 0: break
                j += 1
            st = st[j+1:]
        st = re.sub(r'^\s*for\s*\(', '', st)
        for m in ASSIGN_RE.finditer(st):
            lhs = st[:m.start()]
            ids = [x for x in re.findall(r'[A-Za-z_]\w*', lhs) if x not in TYPEWORDS]
            if not ids or not ids[0].startswith('vg_'):
                raise InjectError('%s: ghost statement assigns a non-ghost lvalue: %r' % (where, stmt.strip()))
            break   # only the first (outermost) assignment of a statement
        if re.search(r'(\+\+|--)', st):
            ids = [x for x in re.findall(r'[A-Za-z_]\w*', st) if x not in TYPEWORDS]
            if not ids or not ids[0].startswith('vg_'):
                raise InjectError('%s: ghost statement modifies a non-ghost lvalue: %r' % (where, stmt.strip()))

# ----------------------------------------------------------------------------
# injection
# ----------------------------------------------------------------------------
def extract_struct(text, name):
    toks = tokenize(text)
    for k in range(len(toks) - 2):
        if toks[k][1] == 'struct' and toks[k+1][1] == name and toks[k+2][1] == '{':
            rb = match_forward(toks, k + 2, '{', '}')
            if toks[rb+1][1] != ';':
                continue
            return text[toks[k][2]:toks[rb+1][2] + 1]
    raise InjectError('anchor miss: struct %s not found for @import' % name)

def inject(src, spec_text, preamble_inc=None, trailer_inc=None, repo=None):
    toks = tokenize(src)
    funcs = find_functions(toks)
    items = parse_spec(spec_text)
    ins = []      # (pos, order, text)
    dele = []     # (start, end) ranges to delete (only `static`/`inline` keywords, recorded)
    seen = set()
    imports = []
    loops_cache = {}
    def tok_end(k):
        return toks[k][2] + len(toks[k][1])
    def get_func(name):
        if name not in funcs:
            raise InjectError('anchor miss: function %s not found' % name)
        return funcs[name]
    def get_loops(name):
        if name not in loops_cache:
            loops_cache[name] = find_loops(toks, get_func(name))
        return loops_cache[name]
    order = 0
    for kind, target, body in items:
        order += 1
        key = (kind, target)
        if kind in ('function', 'loop', 'before') and key in seen:
            raise InjectError('duplicate spec item %s %s' % key)
        seen.add(key)
        if kind == 'import':
            import os
            other = open(os.path.join(repo or '/repo', target)).read()
            imports.append('/* imported mechanically from %s */\n%s\n' % (target, extract_struct(other, body)))
        elif kind == 'loops':
            n = len(get_loops(target))
            if n != body:
                raise InjectError('must-fire: %s has %d loops, spec recorded %d' % (target, n, body))
        elif kind == 'unstatic':
            f = get_func(target)
            found = False
            for k in range(f['decl_start'], f['name_idx']):
                if toks[k][0] == 'id' and toks[k][1] in ('static', 'inline'):
                    dele.append((toks[k][2], tok_end(k))); found = True
            if not found:
                raise InjectError('@unstatic %s: not static' % target)
        elif kind == 'function':
            f = get_func(target)
            ins.append((toks[f['lbrace']][2], order, '\n' + body + '\n'))
        elif kind == 'before':
            f = get_func(target)
            ins.append((toks[f['decl_start']][2], order, '\n' + body + '\n'))
        elif kind == 'loop':
            m = re.match(r'^(\w+)#(\d+)$', target)
            if not m: raise InjectError('bad loop anchor %s' % target)
            L = get_loops(m.group(1))
            idx = int(m.group(2))
            if idx < 1 or idx > len(L):
                raise InjectError('anchor miss: %s has %d loops' % (m.group(1), len(L)))
            l = L[idx-1]
            if l['contract_after'] is None:
                raise InjectError('do-loop without while tail: %s' % target)
            ins.append((tok_end(l['contract_after']), order, '\n' + body + '\n'))
        elif kind == 'ghost' and '@before:"' in target:
            fn = target.split('@', 1)[0]
            snip = target.split('@before:"', 1)[1]
            if not snip.endswith('"'): raise InjectError('bad anchor %s' % target)
            snip = snip[:-1]
            check_ghost(body, target)
            f = get_func(fn)
            lo, hi = toks[f['lbrace']][2], toks[f['rbrace']][2]
            region = src[lo:hi]
            if region.count(snip) != 1:
                raise InjectError('anchor miss: snippet %r occurs %d times in %s' % (snip, region.count(snip), fn))
            ins.append((lo + region.index(snip), order, '\n' + body + '\n'))
        elif kind == 'ghost' and '@after:"' in target:
            # statement-level anchor: @ghost NAME@after:"code snippet ending in ;"  (snippet must occur exactly once in NAME)
            fn = target.split('@', 1)[0]
            snip = target.split('@after:"', 1)[1]
            if not snip.endswith('"'): raise InjectError('bad anchor %s' % target)
            snip = snip[:-1]
            check_ghost(body, target)
            f = get_func(fn)
            lo, hi = toks[f['lbrace']][2], toks[f['rbrace']][2]
            region = src[lo:hi]
            if region.count(snip) != 1:
                raise InjectError('anchor miss: snippet %r occurs %d times in %s' % (snip, region.count(snip), fn))
            ins.append((lo + region.index(snip) + len(snip), order, '\n' + body + '\n'))
        elif kind == 'ghost':
            m = re.match(r'^(\w+)(?:#(\d+))?@([\w-]+)(?::(\d+))?$', target)
            if not m: raise InjectError('bad ghost anchor %s' % target)
            fn, li, where = m.group(1), m.group(2), m.group(3)
            retk = int(m.group(4)) if m.group(4) else None
            check_ghost(body, target)
            f = get_func(fn)
            if li is None:
                if where == 'entry':
                    ins.append((tok_end(f['lbrace']), order, '\n' + body + '\n'))
                elif where == 'ret':
                    # before every `return` token in the function: wrap "return ...;" in a block
                    nret = 0
                    k = f['lbrace'] + 1
                    while k < f['rbrace']:
                        if toks[k][0] == 'id' and toks[k][1] == 'return':
                            # find the terminating ';'
                            j = k
                            while not (toks[j][0] == 'p' and toks[j][1] == ';'): j += 1
                            nret += 1
                            if retk is None or retk == nret:
                                ins.append((toks[k][2], order, '{ ' + body + ' '))
                                ins.append((tok_end(j), order, ' }'))
                            k = j
                        k += 1
                    if retk is None:
                        # falling off the end (void functions; dead code after a final return otherwise)
                        ins.append((toks[f['rbrace']][2], order, '\n' + body + '\n'))
                    elif retk > nret:
                        raise InjectError('anchor miss: %s has %d return statements' % (fn, nret))
                else:
                    raise InjectError('bad ghost anchor %s' % target)
            else:
                L = get_loops(fn)
                idx = int(li)
                if idx < 1 or idx > len(L):
                    raise InjectError('anchor miss: %s has %d loops' % (fn, len(L)))
                l = L[idx-1]
                if where == 'after':
                    ins.append((tok_end(l['end_tok']), order, '\n' + body + '\n'))
                else:
                    if l['body_l'] is None:
                        raise InjectError('%s: loop body is not a block' % target)
                    if where == 'body-begin':
                        ins.append((tok_end(l['body_l']), order, '\n' + body + '\n'))
                    elif where == 'body-end':
                        ins.append((toks[l['body_r']][2], order, '\n' + body + '\n'))
                    else:
                        raise InjectError('bad ghost anchor %s' % target)
    if preamble_inc:
        ins.append((0, -1, '#include "%s"\n' % preamble_inc + ''.join(imports)))
    elif imports:
        ins.append((0, -1, ''.join(imports)))
    if trailer_inc:
        ins.append((len(src), 10**6, '\n#include "%s"\n' % trailer_inc))
    # build output
    ins.sort(key=lambda t: (t[0], t[1]))
    dele.sort()
    out = []
    marks = []  # inserted ranges in output coordinates
    cur = 0
    outlen = 0
    events = [(p, 0, o, t) for (p, o, t) in ins] + [(s, 1, e, None) for (s, e) in dele]
    events.sort(key=lambda t: (t[0], t[1], t[2] if t[1] == 0 else 0))
    removed = []
    for ev in events:
        p = ev[0]
        if p < cur:
            raise InjectError('overlapping edits')
        out.append(src[cur:p]); outlen += p - cur
        cur = p
        if ev[1] == 0:
            t = ev[3]
            marks.append((outlen, outlen + len(t)))
            out.append(t); outlen += len(t)
        else:
            e = ev[2]
            removed.append(src[p:e])
            # replace keyword by same-length blanks inside a marked comment so strip() can restore it
            rep = '/*vg-unstatic:%s*/' % src[p:e]
            marks.append((outlen, outlen + len(rep), src[p:e]))
            out.append(rep); outlen += len(rep)
            cur = e
    out.append(src[cur:])
    result = ''.join(out)
    # self-check: strip
    stripped = []
    c = 0
    for mk in marks:
        stripped.append(result[c:mk[0]])
        if len(mk) == 3: stripped.append(mk[2])
        c = mk[1]
    stripped.append(result[c:])
    if ''.join(stripped) != src:
        raise InjectError('self-check failed: strip(inject(src)) != src')
    info = dict(functions_annotated=sorted(t for k, t in seen if k == 'function'),
                loops_annotated=sorted(t for k, t in seen if k == 'loop'),
                dropped_keywords=removed,
                src_sha256=hashlib.sha256(src.encode()).hexdigest(),
                injected_sha256=hashlib.sha256(result.encode()).hexdigest(),
                insertions=len(ins))
    return result, info

if __name__ == '__main__':
    import json
    src = open(sys.argv[1]).read()
    spec = open(sys.argv[2]).read()
    try:
        out, info = inject(src, spec, *(sys.argv[3:5]))
    except InjectError as e:
        print('INJECT-ERROR:', e, file=sys.stderr); sys.exit(2)
    sys.stdout.write(out)
    print(json.dumps(info), file=sys.stderr)
