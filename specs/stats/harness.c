/* harnesses for statistics.c -- included at the end of the injected TU */
#include "vg.h"
#include <stdlib.h>
uint64_t vg_k, vg_imin, vg_imax;
struct jls_statistics_s vg_a0, vg_b0;     /* ghost copies of the operands on entry (the result may overwrite either) */

void h_stat_reset(void) { struct jls_statistics_s * s; jls_statistics_reset(s); VG_REACH(reset_returns); }

void h_stat_add(void) {
    struct jls_statistics_s * s; double x;
    jls_statistics_add(s, x);
    VG_REACH(add_returns);
}

void h_stat_var(void) {
    struct jls_statistics_s * s;
    double v = jls_statistics_var(s);
    VG_REACH(var_returns);
}

/* operand aliasing: mode 0 = three distinct objects, 1 = tgt is a, 2 = tgt is b */
void h_stat_combine(void) {
    struct jls_statistics_s sa, sb, st;
    unsigned mode;
    __CPROVER_assume(mode < 3);
    struct jls_statistics_s * tgt = (mode == 0) ? &st : (mode == 1) ? &sa : &sb;
    jls_statistics_combine(tgt, &sa, &sb);
    VG_REACH(combine_returns);
    if (mode == 1 && sa.k > 5 && vg_b0.k > 7) { VG_REACH(combine_in_place_a); }
    if (mode == 2) { VG_REACH(combine_in_place_b); }
}

void h_stat_compute_f32(void) {
    struct jls_statistics_s * s; const float * x; uint64_t length;
    jls_statistics_compute_f32(s, x, length);
    VG_REACH(compute_f32_returns);
    if (length > 1000) { VG_REACH(compute_f32_long); }
}

void h_stat_compute_f64(void) {
    struct jls_statistics_s * s; const double * x; uint64_t length;
    jls_statistics_compute_f64(s, x, length);
    VG_REACH(compute_f64_returns);
    if (length > 1000) { VG_REACH(compute_f64_long); }
}
