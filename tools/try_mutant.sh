#!/bin/sh
# apply a seeded patch to /repo, run the quick check of a property, undo; usage: try_mutant.sh <patch> <PROP> [extra check.py args]
# the evidence file of the property is saved and restored: evidence committed in /verif always comes from the unchanged tree
P=$1; PROP=$2; shift 2
git -C /repo apply $P || { echo "PATCH-DOES-NOT-APPLY"; exit 2; }
cp /verif/evidence/$PROP.json /tmp/evidence_$PROP.bak 2>/dev/null
python3 /verif/tools/check.py $PROP quick "$@" > /tmp/try_$PROP.log 2>&1; RC=$?
git -C /repo checkout -- .
cp /tmp/evidence_$PROP.bak /verif/evidence/$PROP.json 2>/dev/null
echo "check exit=$RC"; grep -E "^VIOLATION|^UNDECIDED|^OK|^KNOWN" /tmp/try_$PROP.log | cut -c1-220 | head -8
