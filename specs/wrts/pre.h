/* preamble for src/wr_ts.c (C11 index mechanics, C05 INDEX/SUMMARY adjacency, C10) */
#ifndef VG_WRTS_PRE_H
#define VG_WRTS_PRE_H
#include <stdint.h>
#include "jls/format.h"
#include "jls/core.h"
/* recording of the calls the time-series writer makes into the core layer */
#define VG_KIND_NONE 0
#define VG_KIND_INDEX 1
#define VG_KIND_SUMMARY 2
extern int vg_last_kind, vg_last_level; extern int64_t vg_last_ts; extern uint32_t vg_last_entries; extern uint16_t vg_last_signal; extern int vg_last_track;
extern uint64_t vg_n_index, vg_n_summary;
extern int64_t vg_tell;     /* what jls_raw_chunk_tell reports (advances with every core write) */
#endif
