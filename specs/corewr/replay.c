/* native replay for the core gate units: drives the public API of the real library */
#include "vg_native.h"
#include "jls/writer.h"
#include "jls/reader.h"
#include "jls/format.h"
#include <unistd.h>

/* data for an undefined signal id must be rejected with an error code (not crash) */
static int r_sigvalid(void) {
    uint16_t id = (uint16_t) vg_in_u64("signal_id", 7);
    char path[] = "/tmp/vg_replay_XXXXXX";
    int fd = mkstemp(path); close(fd);
    struct jls_wr_s * wr;
    if (jls_wr_open(&wr, path)) { unlink(path); return 0; }
    float data[16] = {0};
    printf("replay: jls_wr_fsr on undefined signal id %u\n", id);
    fflush(stdout);
    int32_t rc = jls_wr_fsr(wr, id, 0, data, 16);
    printf("rc=%d\n", rc);
    VG_CHECK(rc != 0, "data for the undefined signal %u was accepted (rc=0)", id);
    jls_wr_close(wr);
    unlink(path);
    return 0;
}

int main(void) { return VG_REPLAY_ENTRY(); }
