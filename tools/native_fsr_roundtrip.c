#include "jls/writer.h"
#include "jls/reader.h"
#include "jls/format.h"
#include <stdio.h>
#include <stdlib.h>
#include <string.h>
/* mode 2: u4 overlap (F2) ; mode 3: i16 gap (F3) ; mode 4: u8 exact-size caller buffer (F4, ASan) ; mode 5: u1 overlap */
static int run(int mode, uint32_t dt, int64_t second_id, uint32_t n1, uint32_t n2) {
    struct jls_wr_s * wr; if (jls_wr_open(&wr, "/tmp/p1/f234.jls")) return 2;
    struct jls_source_def_s src = {.source_id = 1, .name="s", .vendor="v", .model="m", .version="1", .serial_number="1"};
    jls_wr_source_def(wr, &src);
    struct jls_signal_def_s sig = {.signal_id = 1, .source_id = 1, .signal_type = JLS_SIGNAL_TYPE_FSR, .data_type = dt, .sample_rate = 1000, .name = "x", .units = "V"};
    if (jls_wr_signal_def(wr, &sig)) return 3;
    uint32_t bits = (dt >> 8) & 0xff;
    size_t b1 = ((size_t) n1 * bits + 7) / 8, b2 = ((size_t) n2 * bits + 7) / 8;
    uint8_t * d1 = malloc(b1), * d2 = malloc(b2);
    for (size_t i = 0; i < b1; ++i) d1[i] = (uint8_t) (i * 7 + 1);
    for (size_t i = 0; i < b2; ++i) d2[i] = (uint8_t) (i * 13 + 5);
    if (jls_wr_fsr(wr, 1, 0, d1, n1)) return 4;
    if (jls_wr_fsr(wr, 1, second_id, d2, n2)) return 5;
    jls_wr_close(wr);
    struct jls_rd_s * rd; if (jls_rd_open(&rd, "/tmp/p1/f234.jls")) return 6;
    int64_t len = 0; jls_rd_fsr_length(rd, 1, &len);
    int64_t expect_len = (second_id + n2 > n1) ? second_id + n2 : n1;
    size_t bl = ((size_t) expect_len * bits + 7) / 8;
    uint8_t * out = calloc(1, bl + 8);
    int rc = jls_rd_fsr(rd, 1, 0, out, expect_len);
    int bad = 0;
    /* expected stream: d1 samples [0,n1), then gap fill 0, then d2 samples from max(0,n1-second_id) */
    for (int64_t k = 0; k < expect_len && bad < 5; ++k) {
        uint64_t exp = 0, got = 0;
        for (uint32_t bb = 0; bb < bits; ++bb) {
            size_t ob = (size_t) k * bits + bb; got |= (uint64_t) ((out[ob / 8] >> (ob % 8)) & 1) << bb;
            if (k < n1) { exp |= (uint64_t) ((d1[ob / 8] >> (ob % 8)) & 1) << bb; }
            else if (k >= second_id) { size_t ib = (size_t) (k - second_id) * bits + bb; exp |= (uint64_t) ((d2[ib / 8] >> (ib % 8)) & 1) << bb; }
        }
        if (exp != got) { printf("sample %lld: expected 0x%llx got 0x%llx\n", (long long) k, (unsigned long long) exp, (unsigned long long) got); bad++; }
    }
    printf("mode %d: length=%lld expected %lld rd rc=%d mismatches>=%d\n", mode, (long long) len, (long long) expect_len, rc, bad);
    jls_rd_close(rd);
    return (len == expect_len && rc == 0 && bad == 0) ? 0 : 1;
}
int main(int argc, char ** argv) {
    int mode = argc > 1 ? atoi(argv[1]) : 2;
    switch (mode) {
        case 2: return run(2, JLS_DATATYPE_U4, 2997, 3000, 3000);      /* odd overlap of 3 samples */
        case 3: return run(3, JLS_DATATYPE_I16, 43000, 3000, 3000);  /* gap of 40000 samples */
        case 4: return run(4, JLS_DATATYPE_U8, 3000, 3000, 3000);     /* plain append, exact-size buffers */
        case 5: return run(5, JLS_DATATYPE_U1, 2990, 3000, 3000);      /* u1 overlap of 10 samples */
        case 7: return run(7, JLS_DATATYPE_U4, 3001, 3001, 3000);   /* plain append after an odd number of u4 samples */
        case 8: return run(8, JLS_DATATYPE_U4, 3000, 3000, 3001);   /* odd total */
        case 9: return run(9, JLS_DATATYPE_U1, 3000, 3000, 3003);   /* u1 total not multiple of 8 */
        case 6: return run(6, JLS_DATATYPE_U4, 2996, 3000, 3000);      /* even overlap of 4 samples */
    }
    return 0;
}
