/* preamble for src/threaded_writer.c (C06 sequential obligations: marshalling round trip, lock discipline) */
#ifndef VG_TWR_PRE_H
#define VG_TWR_PRE_H
#include <stdint.h>
#endif
