#include "bk_model.h"
#include "jls/ec.h"
#include <stdio.h>
#include <stdlib.h>
int64_t vg_off; uint8_t vg_cell; int64_t vg_hoff; uint8_t vg_hwin[32];
uint64_t vg_nwrites, vg_ninplace, vg_ntrunc, vg_nsync;
int64_t vg_wr_pos, vg_ip_pos; uint32_t vg_wr_count, vg_ip_count;
_Bool vg_cell_rewritten, vg_write_forbidden;
_Bool nondet_bool(void);

int32_t jls_bk_fopen(struct jls_bkf_s * self, const char * filename, const char * mode) {
    (void) filename;
    if (mode[0] != 'w' && mode[0] != 'r' && mode[0] != 'a') return JLS_ERROR_PARAMETER_INVALID;
    if (nondet_bool()) { self->fd = -1; return JLS_ERROR_IO; }
    self->fd = 3;
    return 0;
}
int32_t jls_bk_fclose(struct jls_bkf_s * self) { self->fd = -1; return 0; }

uint8_t nondet_u8(void);
static void vg_hwin_havoc(void) {
    vg_hwin[0] = nondet_u8(); vg_hwin[1] = nondet_u8(); vg_hwin[2] = nondet_u8(); vg_hwin[3] = nondet_u8();
    vg_hwin[4] = nondet_u8(); vg_hwin[5] = nondet_u8(); vg_hwin[6] = nondet_u8(); vg_hwin[7] = nondet_u8();
    vg_hwin[8] = nondet_u8(); vg_hwin[9] = nondet_u8(); vg_hwin[10] = nondet_u8(); vg_hwin[11] = nondet_u8();
    vg_hwin[12] = nondet_u8(); vg_hwin[13] = nondet_u8(); vg_hwin[14] = nondet_u8(); vg_hwin[15] = nondet_u8();
    vg_hwin[16] = nondet_u8(); vg_hwin[17] = nondet_u8(); vg_hwin[18] = nondet_u8(); vg_hwin[19] = nondet_u8();
    vg_hwin[20] = nondet_u8(); vg_hwin[21] = nondet_u8(); vg_hwin[22] = nondet_u8(); vg_hwin[23] = nondet_u8();
    vg_hwin[24] = nondet_u8(); vg_hwin[25] = nondet_u8(); vg_hwin[26] = nondet_u8(); vg_hwin[27] = nondet_u8();
    vg_hwin[28] = nondet_u8(); vg_hwin[29] = nondet_u8(); vg_hwin[30] = nondet_u8(); vg_hwin[31] = nondet_u8();
}
int32_t jls_bk_fwrite(struct jls_bkf_s * self, const void * buffer, unsigned int count) {
    const uint8_t * b = (const uint8_t *) buffer;
    int64_t pos = self->fpos;
    __CPROVER_assert(!vg_write_forbidden, "backend write while writing is forbidden (read-only open of a closed file)");
    vg_nwrites++;
    vg_wr_pos = pos; vg_wr_count = count;
    if (pos < self->fend) { vg_ninplace++; vg_ip_pos = pos; vg_ip_count = count; }
    if (vg_off >= pos && vg_off < pos + (int64_t) count) {
        if (vg_off < self->fend) { vg_cell_rewritten = 1; }
        vg_cell = b[vg_off - pos];
    }
    /* header window: a write that covers it completely defines it; a partial overlap leaves it unknown */
    if (vg_hoff >= pos && vg_hoff + 32 <= pos + (int64_t) count) {
        const uint8_t * s_ = b + (vg_hoff - pos);
        vg_hwin[0] = s_[0]; vg_hwin[1] = s_[1]; vg_hwin[2] = s_[2]; vg_hwin[3] = s_[3]; vg_hwin[4] = s_[4]; vg_hwin[5] = s_[5]; vg_hwin[6] = s_[6]; vg_hwin[7] = s_[7]; vg_hwin[8] = s_[8]; vg_hwin[9] = s_[9]; vg_hwin[10] = s_[10]; vg_hwin[11] = s_[11]; vg_hwin[12] = s_[12]; vg_hwin[13] = s_[13]; vg_hwin[14] = s_[14]; vg_hwin[15] = s_[15]; vg_hwin[16] = s_[16]; vg_hwin[17] = s_[17]; vg_hwin[18] = s_[18]; vg_hwin[19] = s_[19]; vg_hwin[20] = s_[20]; vg_hwin[21] = s_[21]; vg_hwin[22] = s_[22]; vg_hwin[23] = s_[23]; vg_hwin[24] = s_[24]; vg_hwin[25] = s_[25]; vg_hwin[26] = s_[26]; vg_hwin[27] = s_[27]; vg_hwin[28] = s_[28]; vg_hwin[29] = s_[29]; vg_hwin[30] = s_[30]; vg_hwin[31] = s_[31];
    } else if (vg_hoff + 32 > pos && vg_hoff < pos + (int64_t) count) {
        vg_hwin_havoc();
    }
    /* the two witnesses describe the same file: keep them consistent where they overlap */
    if (vg_off >= vg_hoff && vg_off < vg_hoff + 32) { vg_hwin[vg_off - vg_hoff] = vg_cell; }
    self->fpos += count;
    if (self->fpos > self->fend) { self->fend = self->fpos; }
    return 0;
}
int32_t jls_bk_fread(struct jls_bkf_s * self, void * const buffer, unsigned const n) {
    uint8_t * b = (uint8_t *) buffer;
    int64_t pos = self->fpos;
    if (pos < 0 || pos + (int64_t) n > self->fend) {      /* short read: position moves to the end */
        if (pos < self->fend) { self->fpos = self->fend; }
        return JLS_ERROR_IO;
    }
    if (n) { __CPROVER_havoc_slice(b, n); }               /* unknown file content ... */
    if (vg_hoff >= pos && vg_hoff + 32 <= pos + (int64_t) n) {   /* ... except at the witnesses */
        uint8_t * d_ = b + (vg_hoff - pos);
        d_[0] = vg_hwin[0]; d_[1] = vg_hwin[1]; d_[2] = vg_hwin[2]; d_[3] = vg_hwin[3]; d_[4] = vg_hwin[4]; d_[5] = vg_hwin[5]; d_[6] = vg_hwin[6]; d_[7] = vg_hwin[7]; d_[8] = vg_hwin[8]; d_[9] = vg_hwin[9]; d_[10] = vg_hwin[10]; d_[11] = vg_hwin[11]; d_[12] = vg_hwin[12]; d_[13] = vg_hwin[13]; d_[14] = vg_hwin[14]; d_[15] = vg_hwin[15]; d_[16] = vg_hwin[16]; d_[17] = vg_hwin[17]; d_[18] = vg_hwin[18]; d_[19] = vg_hwin[19]; d_[20] = vg_hwin[20]; d_[21] = vg_hwin[21]; d_[22] = vg_hwin[22]; d_[23] = vg_hwin[23]; d_[24] = vg_hwin[24]; d_[25] = vg_hwin[25]; d_[26] = vg_hwin[26]; d_[27] = vg_hwin[27]; d_[28] = vg_hwin[28]; d_[29] = vg_hwin[29]; d_[30] = vg_hwin[30]; d_[31] = vg_hwin[31];
    }
    if (vg_off >= pos && vg_off < pos + (int64_t) n) { b[vg_off - pos] = vg_cell; }
    self->fpos += n;
    return 0;
}
int32_t jls_bk_fseek(struct jls_bkf_s * self, int64_t offset, int origin) {
    int64_t pos;
    if (origin == SEEK_SET) pos = offset;
    else if (origin == SEEK_END) pos = self->fend + offset;
    else pos = self->fpos + offset;
    if (pos < 0) return JLS_ERROR_IO;
    self->fpos = pos;
    return 0;
}
int64_t jls_bk_ftell(struct jls_bkf_s * self) { return self->fpos; }
int32_t jls_bk_fflush(struct jls_bkf_s * self) { (void) self; vg_nsync++; return 0; }
int32_t jls_bk_truncate(struct jls_bkf_s * self) {
    __CPROVER_assert(!vg_write_forbidden, "backend truncate while writing is forbidden (read-only open of a closed file)");
    vg_ntrunc++;
    if (self->fend > self->fpos) { self->fend = self->fpos; }
    return 0;
}
