/* preamble for the chunk-list / head-table units over src/core.c, src/track.c, src/raw.c (C14, C05, C03a) */
#ifndef VG_COREWR_PRE_H
#define VG_COREWR_PRE_H
#include "../raw/pre.h"
#include "jls/core.h"
#include "jls/track.h"

/* heads-sync (C14): a cached list head equals the header stored in the file in every field that must never change after the first write
 * (tag, reserved, chunk_meta, payload_length, payload_prev_length = header bytes 16..27).  Instance for the witness window / witness byte index. */
static inline _Bool vg_head_sync(const struct jls_core_chunk_s * c, uint32_t k) {
    if (c->offset == 0 || c->offset != vg_hoff || k < 16 || k >= 28) return 1;
    return vg_hwin[k] == vg_hdr_byte(&c->hdr, k);
}
/* ... and the link field item_prev (bytes 8..15), which is written once */
static inline _Bool vg_head_sync_prev(const struct jls_core_chunk_s * c, uint32_t k) {
    if (c->offset == 0 || c->offset != vg_hoff || k < 8 || k >= 16) return 1;
    return vg_hwin[k] == vg_hdr_byte(&c->hdr, k);
}
/* a cached chunk lies completely inside the file */
#define VG_CHUNK_IN_FILE(c, raw) ((c)->offset >= 16 && (c)->offset <= VG_FILE_MAX && (c)->offset + 32 + (int64_t) vg_disk_size((c)->hdr.payload_length) <= (raw)->backend.fend && (c)->hdr.payload_length <= VG_PAYLOAD_MAX)
#endif
