/* bounded harness for reconstruct_omitted_chunk (C15 / C01): an omitted block of VG_SPD = 2 * VG_SDF samples is rebuilt from the cached level-1
 * index and summary.  For the types whose constant blocks the writer omits automatically (8 bits or less) the summary entries of such a block
 * hold mean = the constant sample value and std = 0: the rebuilt block must hold that value in every sample (bit-exact round trip).  For every
 * type the rebuilt block must hold the right number of samples of the signal's type. */
#include "vg.h"
#include <stdlib.h>
#ifndef VG_SIG
#define VG_SIG 5
#endif
#define VG_SDF 8
#define VG_SPD 16
int32_t nondet_i32(void); int64_t nondet_i64(void); uint32_t nondet_u32(void); uint8_t nondet_u8(void); _Bool nondet_bool(void);
void * memset(void * dst, int c, size_t n) { for (size_t i = 0; i < n; ++i) { ((uint8_t *) dst)[i] = (uint8_t) c; } return dst; }
/* A-LIBM: roundf returns an integral value within 0.5 of its argument (|x| < 2^31 here); CBMC's own roundf model is too expensive */
float roundf(float x) { float r; __CPROVER_assume(r - x <= 0.5f && x - r <= 0.5f && r == (float) (int32_t) r); return r; }
/* the transcendental functions used to synthesise float blocks are left unconstrained: only the number of samples is checked for those types */
float logf(float x) { (void) x; float r; return r; } float cosf(float x) { (void) x; float r; return r; } float sinf(float x) { (void) x; float r; return r; } float sqrtf(float x) { (void) x; float r; return r; }
double log(double x) { (void) x; double r; return r; } double cos(double x) { (void) x; double r; return r; } double sin(double x) { (void) x; double r; return r; } double sqrt(double x) { (void) x; double r; return r; }
int32_t jls_buf_realloc(struct jls_buf_s * self, size_t size) { return (size <= self->alloc_size) ? 0 : JLS_ERROR_NOT_ENOUGH_MEMORY; }
static int vg_dummy_raw;

void h_recon(void) {
    struct jls_core_s * c = malloc(sizeof(*c));
    __CPROVER_assume(c != NULL);
    struct jls_buf_s * b = malloc(sizeof(*b)); struct jls_buf_s * bi = malloc(sizeof(*bi)); struct jls_buf_s * bs = malloc(sizeof(*bs));
    __CPROVER_assume(b != NULL && bi != NULL && bs != NULL);
    size_t bsz = sizeof(struct jls_fsr_data_s) + (VG_SPD * VG_BITS) / 8 + 16;
    b->start = malloc(bsz); b->alloc_size = bsz; b->length = 0;
    struct jls_fsr_index_s * idx = malloc(sizeof(struct jls_fsr_index_s) + 2 * sizeof(int64_t));
    struct jls_fsr_f32_summary_s * sum = malloc(sizeof(struct jls_fsr_f32_summary_s) + 4 * 4 * sizeof(float));
    __CPROVER_assume(b->start != NULL && idx != NULL && sum != NULL);
    bi->start = (uint8_t *) idx; bs->start = (uint8_t *) sum;
    __CPROVER_assume(c->buf == b && c->rd_index == bi && c->rd_summary == bs);
    struct jls_core_signal_s * si = &c->signal_info[VG_SIG];
    /* constrained, not assigned: an assignment into signal_info[] makes CBMC bit-blast the whole 1.6 MB array */
    __CPROVER_assume(si->signal_def.signal_id == VG_SIG && si->signal_def.signal_type == JLS_SIGNAL_TYPE_FSR && si->signal_def.data_type == VG_DT
        && si->signal_def.samples_per_data == VG_SPD && si->signal_def.sample_decimate_factor == VG_SDF);
    int64_t ti; uint8_t blk; int64_t start;
    __CPROVER_assume(ti > -(1ll << 60) && ti < (1ll << 60) && blk < 2 && start >= ti + blk * VG_SPD && start < ti + (blk + 1) * VG_SPD);
    idx->header.timestamp = ti; idx->header.entry_count = 2; idx->header.entry_size_bits = 64; idx->header.rsv16 = 0; idx->offsets[0] = 0; idx->offsets[1] = 0;
    sum->header.timestamp = ti; sum->header.entry_count = 4; sum->header.entry_size_bits = 128; sum->header.rsv16 = 0;
    /* the omitted block is constant: value cv, as the writer's level-1 summary records it (mean = min = max = value, std = 0) */
    int cv;
#if VG_SIGNED
    __CPROVER_assume(cv >= -(1 << (VG_BITS - 1)) && cv < (1 << (VG_BITS - 1)));
#else
    __CPROVER_assume(cv >= 0 && (VG_BITS >= 31 || cv < (1 << VG_BITS)));
#endif
    float * sd = (float *) ((uint8_t *) sum + sizeof(struct jls_payload_header_s));      /* entries of 4 floats: mean, std, min, max */
    for (int e = 0; e < 4; ++e) {
        sd[e * JLS_SUMMARY_FSR_COUNT + JLS_SUMMARY_FSR_MEAN] = (float) cv; sd[e * JLS_SUMMARY_FSR_COUNT + JLS_SUMMARY_FSR_MIN] = (float) cv;
        sd[e * JLS_SUMMARY_FSR_COUNT + JLS_SUMMARY_FSR_MAX] = (float) cv; sd[e * JLS_SUMMARY_FSR_COUNT + JLS_SUMMARY_FSR_STD] = 0.0f;
    }
    int32_t rc = reconstruct_omitted_chunk(c, VG_SIG, start);
    const struct jls_fsr_data_s * d = (const struct jls_fsr_data_s *) c->buf->start;
    __CPROVER_assert(rc == 0, "C15: an omitted block can be rebuilt");
    __CPROVER_assert(d->header.timestamp == ti + blk * VG_SPD && d->header.entry_size_bits == VG_BITS, "C15: the rebuilt block starts at the block boundary and has the signal's sample size");
    __CPROVER_assert(d->header.entry_count == VG_SPD, "C15: the rebuilt block holds the right number of samples (a full block)");
#if VG_BITS <= 8
    {   /* automatically omitted constant block: bit-exact */
        unsigned w; __CPROVER_assume(w < (VG_SPD * VG_BITS) / 8);
        uint8_t u = (uint8_t) cv;
        uint8_t expect = (VG_BITS == 8) ? u : (VG_BITS == 4) ? (uint8_t) ((u & 0x0f) | ((u & 0x0f) << 4)) : (uint8_t) ((u & 1) ? 0xff : 0x00);
        __CPROVER_assert(((const uint8_t *) d->data)[w] == expect, "C15/C01: an automatically omitted constant block of a type of 8 bits or less reads back bit-exactly");
    }
#endif
    VG_REACH(recon_returns);
}
