/* harness for jls_rd_open -- included at the end of the injected reader.c.
 * Every callee outside reader.c is a recording stub with an arbitrary outcome; a small state machine in the stubs
 * asserts the control shape that C19/C03 rely on:
 *   (a) a file whose last valid chunk is END is opened without any mutating call
 *       (no raw open in append mode, no truncate, no chunk write, no repair, no END write);
 *   (b) when repair runs: the file is reopened for appending before anything is written; truncation happens after the
 *       last valid chunk was re-read at the position jls_core_rd_chunk_end reported and before any write; that chunk is
 *       rewritten at the same position; repairs come next; the END chunk is the last write; the file is closed and
 *       reopened read-only before the reader is handed out. */
#include "vg.h"
#include <stdlib.h>
#include "jls/backend.h"
#include "jls/track.h"
#include "jls/wr_fsr.h"
int32_t nondet_i32(void); uint8_t nondet_u8(void); int64_t nondet_i64(void); _Bool nondet_bool(void);

enum { ST_INIT, ST_OPEN_R, ST_CLOSED1, ST_OPEN_A, ST_SEEK1, ST_REREAD, ST_TRUNC, ST_SEEK2, ST_REWRITTEN, ST_REPAIR, ST_END, ST_CLOSED2, ST_OPEN_R2 };
static int vg_st; static int64_t vg_endpos; static int64_t vg_seekpos;
static uint64_t vg_n_mut;          /* mutating calls */
static _Bool vg_closed_file;       /* last valid chunk is END */
static struct jls_bkf_s vg_bk;
static int vg_dummy_raw;

struct jls_buf_s * jls_buf_alloc(void) { if (nondet_bool()) return NULL; struct jls_buf_s * b = calloc(1, sizeof(*b)); return b; }
void jls_buf_free(struct jls_buf_s * b) { free(b); }
void jls_core_f64_buf_free(struct jls_core_f64_buf_s * b) { (void) b; }
int32_t jls_fsr_close(struct jls_core_fsr_s * self) { (void) self; return 0; }
int32_t jls_fsr_open(struct jls_core_fsr_s ** instance, struct jls_core_signal_s * parent) { (void) parent; *instance = NULL; return nondet_bool() ? JLS_ERROR_NOT_ENOUGH_MEMORY : 0; }

int32_t jls_raw_open(struct jls_raw_s ** instance, const char * path, const char * mode) {
    (void) path;
    int32_t rc = nondet_i32();
    if (mode[0] == 'r') {
        __CPROVER_assert(vg_st == ST_INIT || vg_st == ST_CLOSED2, "C19: read-only open happens first, or after the repaired file was closed");
        if (rc && rc != JLS_ERROR_TRUNCATED) { *instance = NULL; return rc; }
        vg_st = (vg_st == ST_INIT) ? ST_OPEN_R : ST_OPEN_R2;
    } else {
        __CPROVER_assert(mode[0] == 'a', "only read or append modes are used by the reader");
        __CPROVER_assert(!vg_closed_file, "C19: a properly closed file is never reopened for writing");
        __CPROVER_assert(vg_st == ST_CLOSED1, "C03: the read-only handle is closed before the file is reopened for appending");
        vg_n_mut++;
        if (rc && rc != JLS_ERROR_TRUNCATED) { *instance = NULL; return rc; }
        vg_st = ST_OPEN_A;
    }
    *instance = (struct jls_raw_s *) &vg_dummy_raw;
    return rc;
}
int32_t jls_raw_close(struct jls_raw_s * self) {
    (void) self;
    if (vg_st == ST_OPEN_R) vg_st = ST_CLOSED1;
    else if (vg_st == ST_END) vg_st = ST_CLOSED2;
    return 0;
}
int32_t jls_core_scan_initial(struct jls_core_s * self) { (void) self; return nondet_i32(); }
int32_t jls_core_scan_sources(struct jls_core_s * self) { (void) self; return nondet_i32(); }
int32_t jls_core_scan_signals(struct jls_core_s * self) {
    /* one arbitrary signal (skolem index) is defined with arbitrary type and track parents; signal 0 is defined by construction (id 0 in a zeroed record) */
    uint8_t k = nondet_u8();
    self->signal_info[k].signal_def.signal_id = k;
    self->signal_info[k].signal_def.signal_type = nondet_u8();
    self->signal_info[k].tracks[0].parent = nondet_bool() ? &self->signal_info[k] : NULL;
    self->signal_info[k].tracks[1].parent = nondet_bool() ? &self->signal_info[k] : NULL;
    self->signal_info[k].tracks[2].parent = nondet_bool() ? &self->signal_info[k] : NULL;
    self->signal_info[k].tracks[3].parent = nondet_bool() ? &self->signal_info[k] : NULL;
    return nondet_i32();
}
int32_t jls_core_scan_fsr_sample_id(struct jls_core_s * self) { (void) self; return nondet_i32(); }
int32_t jls_core_rd_chunk_end(struct jls_core_s * self) {
    if (nondet_bool()) return JLS_ERROR_NOT_FOUND;
    self->chunk_cur.hdr.tag = nondet_u8();
    vg_closed_file = (self->chunk_cur.hdr.tag == JLS_TAG_END);
    vg_endpos = nondet_i64(); __CPROVER_assume(vg_endpos > 0);
    vg_seekpos = vg_endpos;
    return 0;
}
int64_t jls_raw_chunk_tell(struct jls_raw_s * self) { (void) self; return vg_seekpos; }
int32_t jls_raw_chunk_seek(struct jls_raw_s * self, int64_t offset) {
    (void) self;
    if (nondet_bool()) return JLS_ERROR_IO;
    vg_seekpos = offset;
    if (vg_st == ST_OPEN_A) { __CPROVER_assert(offset == vg_endpos, "C03: repair seeks to the last valid chunk"); vg_st = ST_SEEK1; }
    else if (vg_st == ST_TRUNC) { __CPROVER_assert(offset == vg_endpos, "C03: the last valid chunk is rewritten where it was"); vg_st = ST_SEEK2; }
    return 0;
}
int32_t jls_core_rd_chunk(struct jls_core_s * self) {
    (void) self;
    if (nondet_bool()) return JLS_ERROR_MESSAGE_INTEGRITY;
    if (vg_st == ST_SEEK1) vg_st = ST_REREAD;
    return 0;
}
struct jls_bkf_s * jls_raw_backend(struct jls_raw_s * self) { (void) self; return &vg_bk; }
int32_t jls_bk_truncate(struct jls_bkf_s * self) {
    (void) self;
    __CPROVER_assert(!vg_closed_file, "C19: a properly closed file is never truncated");
    __CPROVER_assert(vg_st == ST_REREAD, "C03: truncation only directly behind the re-read last valid chunk");
    vg_n_mut++; vg_st = ST_TRUNC;
    return nondet_bool() ? JLS_ERROR_IO : 0;
}
int32_t jls_raw_wr(struct jls_raw_s * self, struct jls_chunk_header_s * hdr, const uint8_t * payload) {
    (void) self; (void) hdr; (void) payload;
    __CPROVER_assert(!vg_closed_file, "C19: nothing is written into a properly closed file");
    __CPROVER_assert(vg_st == ST_SEEK2, "C03: the only raw write of the reader rewrites the last valid chunk after truncation");
    vg_n_mut++; vg_st = ST_REWRITTEN;
    return nondet_bool() ? JLS_ERROR_IO : 0;
}
int32_t jls_track_repair_pointers(struct jls_core_track_s * track) {
    (void) track;
    __CPROVER_assert(!vg_closed_file && (vg_st == ST_REWRITTEN || vg_st == ST_REPAIR), "C03: pointer repair only after the tail of the file was cut and re-stamped");
    vg_n_mut++; vg_st = ST_REPAIR;
    return nondet_i32();
}
int32_t jls_core_repair_fsr(struct jls_core_s * self, uint16_t signal_id) {
    (void) self; (void) signal_id;
    __CPROVER_assert(!vg_closed_file && (vg_st == ST_REWRITTEN || vg_st == ST_REPAIR), "C03: FSR repair only after the tail of the file was cut and re-stamped");
    vg_n_mut++; vg_st = ST_REPAIR;
    return nondet_i32();
}
int32_t jls_core_wr_end(struct jls_core_s * self) {
    (void) self;
    __CPROVER_assert(!vg_closed_file && (vg_st == ST_REWRITTEN || vg_st == ST_REPAIR), "C19: the END chunk is written last, after every repair");
    vg_n_mut++; vg_st = ST_END;
    return nondet_bool() ? JLS_ERROR_IO : 0;
}

void h_rd_open(void) {
    struct jls_rd_s * rd = NULL;
    vg_st = ST_INIT; vg_n_mut = 0; vg_closed_file = 0;
    int32_t rc = jls_rd_open(&rd, "f.jls");
    __CPROVER_assert(!vg_closed_file || vg_n_mut == 0, "C19: opening a properly closed file performs no mutating call");
    __CPROVER_assert(rc != 0 || vg_st == ST_OPEN_R || vg_st == ST_OPEN_R2, "C19: a reader is handed out only on a read-only handle (after repair: closed with END written and reopened)");
    __CPROVER_assert(rc != 0 || rd != NULL, "success returns an instance");
    VG_REACH(rd_open_returns);
    if (rc == 0 && vg_st == ST_OPEN_R2) { VG_REACH(rd_open_repaired); }
    if (rc == 0 && vg_closed_file) { VG_REACH(rd_open_closed_file); }
}
