#!/usr/bin/env python3
"""
check.py <property-id> [quick|thorough] [--unit NAME]... [--keep] [--jobs N]

Contract-based deductive check of one property of jetperch/jls with CBMC 6.11:
  inject contracts into the CURRENT /repo working-tree sources  (tools/inject.py)
  -> goto-cc -> goto-instrument --dfcc (enforce / replace / loop contracts)
  -> cbmc (SAT or cvc5 int-blasting), obligations classified one by one.

exit 0  every obligation of every unit discharged (known findings printed as KNOWN-FINDING)
exit 1  a VIOLATION line was printed
exit 2  UNDECIDED (timeout, tool error, spec out of date, vacuous proof) -- never a violation
"""
import sys, os, json, subprocess, time, hashlib, shutil, re, glob, resource, signal
from concurrent.futures import ThreadPoolExecutor, as_completed

VERIF = os.path.dirname(os.path.dirname(os.path.abspath(__file__)))
REPO = os.environ.get('VERIF_REPO', '/repo')
sys.path.insert(0, os.path.join(VERIF, 'tools'))
import inject as inj

WORK = os.path.join(VERIF, '.work')
DEFAULT_MEM_KB = 12 * 1024 * 1024
CBMC_CHECK_FLAGS = []   # cbmc 6 standard checks (bounds, pointer, div-by-zero, signed overflow, undefined shift, ...) are on by default
COMMON_DEFS = ['-DJLS_VERIF=1', '-DVG_CBMC=1']

def sh(cmd, timeout=None, mem_kb=DEFAULT_MEM_KB, cwd=None, env=None):
    def pre():
        os.setsid()
        if mem_kb:
            resource.setrlimit(resource.RLIMIT_AS, (mem_kb * 1024, mem_kb * 1024))
    t0 = time.time()
    p = subprocess.Popen(cmd, stdout=subprocess.PIPE, stderr=subprocess.PIPE, cwd=cwd, env=env,
                         preexec_fn=pre, text=True)
    try:
        out, err = p.communicate(timeout=timeout)
        return p.returncode, out, err, time.time() - t0, False
    except subprocess.TimeoutExpired:
        try:
            os.killpg(p.pid, signal.SIGKILL)
        except Exception:
            pass
        out, err = p.communicate()
        return -9, out, err, time.time() - t0, True

class Undecided(Exception):
    pass

# ----------------------------------------------------------------------------
def load_modules():
    mods = []
    for uj in sorted(glob.glob(os.path.join(VERIF, 'specs', '*', 'units.json'))):
        m = json.load(open(uj))
        m['dir'] = os.path.dirname(uj)
        for u in m['units']:
            u['module'] = m
        mods.append(m)
    return mods

def units_for(mods, prop, tier, only):
    res = []
    for m in mods:
        for u in m['units']:
            if prop not in u.get('properties', []):
                continue
            if only and u['name'] not in only:
                continue
            if u.get('tier') == 'attic' and not only:
                continue        # experimental unit that does not decide within its limits: kept for the record, run only by name
            if tier == 'quick' and u.get('tier', 'quick') != 'quick' and not only:
                continue
            res.append(u)
    return res

# ----------------------------------------------------------------------------
def build_unit(u, wdir):
    """inject + goto-cc + goto-instrument; returns dict(binary, info)"""
    m = u['module']
    os.makedirs(wdir, exist_ok=True)
    srcs = u.get('sources') or m.get('sources') or [m['source']]
    infos = []
    cfiles = []
    pre = os.path.join(m['dir'], u.get('preamble', m.get('preamble', 'pre.h')))
    har = os.path.join(m['dir'], u.get('harness', m.get('harness', 'harness.c')))
    for si, s in enumerate(srcs):
        compile_it = True
        if isinstance(s, dict):
            sfile, sspec = s['file'], s.get('spec')
            compile_it = s.get('compile', True)
        else:
            sfile, sspec = s, (u.get('spec', m.get('spec', 'spec.txt')) if si == 0 else None)
        path = os.path.join(REPO, sfile)
        if not os.path.exists(path):
            raise Undecided('source %s missing' % sfile)
        text = open(path).read()
        spec_s = open(os.path.join(m['dir'], sspec)).read() if sspec else ''
        try:
            out, info = inj.inject(text, spec_s,
                                   preamble_inc=pre if os.path.exists(pre) else None,
                                   trailer_inc=har if (si == 0) else None, repo=REPO)
        except inj.InjectError as e:
            raise Undecided('spec out of date for %s: %s' % (sfile, e))
        info['source'] = sfile
        info['labels'] = ensures_labels(spec_s)
        infos.append(info)
        # same base name as in /repo/src, so that `#include "x.c"` between sources resolves to the injected copy
        of = os.path.join(wdir, os.path.basename(sfile))
        open(of, 'w').write(out)
        if compile_it:
            cfiles.append(of)
    for l in u.get('link', m.get('link', [])):
        cfiles.append(os.path.join(VERIF, l))
    entry = u['entry']
    defs = COMMON_DEFS + ['-D' + d for d in m.get('defines', [])] + ['-D' + d for d in u.get('defines', [])]
    a_gb = os.path.join(wdir, 'a.gb')
    cmd = ['goto-cc', '-I' + os.path.join(REPO, 'include'), '-I' + os.path.join(REPO, 'include_prv'),
           '-I' + os.path.join(REPO, 'src'), '-I' + os.path.join(VERIF, 'stubs'), '-I' + m['dir'],
           '-msse4.2', '-std=gnu99', '-D__FILENAME__="verif"', '--function', entry] + defs + cfiles + ['-o', a_gb]
    rc, out, err, dt, to = sh(cmd, timeout=300)
    if rc != 0:
        raise Undecided('goto-cc failed for %s:\n%s' % (u['name'], (out + err)[-3000:]))
    b_gb = os.path.join(wdir, 'b.gb')
    if u.get('plain'):
        # bounded stand-in / lemma without contracts: the goto binary is checked as compiled
        return dict(binary=a_gb, infos=infos, build_s=dt)
    gi = ['goto-instrument', '--dfcc', entry]
    for f in u.get('enforce', []) if isinstance(u.get('enforce'), list) else ([u['enforce']] if u.get('enforce') else []):
        gi += ['--enforce-contract', f]
    for f in u.get('replace', []):
        gi += ['--replace-call-with-contract', f]
    if u.get('loop_contracts', True):
        gi += ['--apply-loop-contracts']
    gi += u.get('gi_flags', [])
    gi += [a_gb, b_gb]
    rc, out, err, dt2, to = sh(gi, timeout=600)
    if rc != 0:
        raise Undecided('goto-instrument failed for %s:\n%s' % (u['name'], (out + err)[-3000:]))
    return dict(binary=b_gb, infos=infos, build_s=dt + dt2)

def cbmc_base(u, route=None):
    flags = ['cbmc'] + CBMC_CHECK_FLAGS + u.get('flags', [])
    route = route or u.get('solver', 'sat')
    if route == 'minisat':
        pass
    elif route in ('sat', 'cadical'):    # default SAT route: cadical (probe: 1.3 s where minisat needs 570 s on XOR-heavy miters)
        flags += ['--sat-solver', 'cadical']
    elif route == 'kissat':
        flags += ['--external-sat-solver', 'kissat']
    elif route == 'int':
        # --slice-formula: cone of influence of the selected obligation(s); assumptions are always kept by the slicer
        flags += ['--slice-formula', '--cvc5', '--external-smt2-solver', os.path.join(VERIF, 'tools', 'cvc5-int')]
    elif route == 'cvc5':
        flags += ['--slice-formula', '--cvc5']
    elif route == 'z3':
        flags += ['--slice-formula', '--z3']
    elif route == 'bitwuzla':
        flags += ['--slice-formula', '--bitwuzla']
    else:
        raise Undecided('unknown solver route ' + route)
    return flags

def parse_cbmc_json(out):
    """returns (results list or None, messages text)"""
    try:
        data = json.loads(out)
    except Exception:
        # truncated JSON (killed): try to salvage nothing
        return None, out[-2000:]
    results = None
    msgs = []
    for item in data:
        if isinstance(item, dict):
            if 'result' in item:
                results = item['result']
            if 'messageText' in item:
                msgs.append(item['messageText'])
    return results, '\n'.join(msgs)

def list_properties(u, binary):
    cmd = cbmc_base(u) + ['--show-properties', '--json-ui', binary]
    rc, out, err, dt, to = sh(cmd, timeout=600)
    try:
        data = json.loads(out)
    except Exception:
        raise Undecided('show-properties failed for %s: %s' % (u['name'], (out + err)[-1500:]))
    props = []
    for item in data:
        if isinstance(item, dict) and 'properties' in item:
            props = item['properties']
    return props

def run_cbmc(u, binary, prop_ids=None, timeout=300, route=None, slice_formula=False):
    base = cbmc_base(u, route)
    if slice_formula and '--slice-formula' not in base:
        base = base + ['--slice-formula']    # single obligation: cone of influence (assumptions are kept)
    cmd = base + ['--json-ui', '--trace']
    if u.get('no_trace', u['module'].get('no_trace', False)) or u.get('trace_mode') == 'text':
        cmd = base + ['--trace']     # marker only: the plain-text path below drops it
    for p in (prop_ids or []):
        cmd += ['--property', p]
    cmd += [binary]
    if '--json-ui' in cmd:
        rc, out, err, dt, to = sh(cmd, timeout=timeout, mem_kb=u.get('mem_kb', DEFAULT_MEM_KB))
        if to:
            return None, 'timeout after %ds' % timeout, dt
        results, msgs = parse_cbmc_json(out)
    else:
        rc, out, err, dt, results, msgs = 0, '', '', 0.0, None, ''
    if results is None and '--trace' in cmd:
        # cbmc 6.11 can abort while building a json trace: take the statuses from a plain-text run without trace
        cmd2 = [c for c in cmd if c not in ('--trace', '--json-ui')]
        rc, out, err, dt2, to = sh(cmd2, timeout=timeout, mem_kb=u.get('mem_kb', DEFAULT_MEM_KB))
        dt += dt2
        if to:
            return None, 'timeout after %ds' % timeout, dt
        res = []
        curfile = ''; curfn = ''
        for ln in out.split('\n'):
            m0 = re.match(r'^(\S+) function (\S+)$', ln)
            if m0:
                curfile, curfn = m0.group(1), m0.group(2)
                continue
            m1 = re.match(r'^\[(\S+)\] (?:line (\d+) )?(.*): (SUCCESS|FAILURE|UNKNOWN|ERROR)$', ln)
            if m1:
                res.append(dict(property=m1.group(1), description=m1.group(3), status=m1.group(4),
                                sourceLocation=dict(file=curfile, function=curfn, line=m1.group(2))))
        if res and ('VERIFICATION' in out):
            results, msgs = res, out[-3000:]
    if results is None:
        return None, 'no result (rc=%d): %s %s' % (rc, msgs[-600:], err[-300:]), dt
    return results, msgs, dt


def text_trace(u, binary, prop_id, timeout):
    """counterexample of one obligation from cbmc's plain-text trace (for units whose json trace is too large: a 1.6 MB record
    in every step); returns steps in the shape of the json trace"""
    cmd = cbmc_base(u) + ['--trace', '--property', prop_id, binary]
    rc, out, err, dt, to = sh(cmd, timeout=timeout, mem_kb=u.get('mem_kb', DEFAULT_MEM_KB))
    if to:
        return []
    steps = []
    fn = ''; line = None
    for ln in out.split('\n'):
        if len(ln) > 4000:
            continue
        m0 = re.match(r'^State \d+ file (\S+) function (\S+) line (\d+)', ln)
        if m0:
            fn, line = m0.group(2), m0.group(3); continue
        m0 = re.match(r'^State \d+', ln)
        if m0:
            fn, line = '', None; continue
        m1 = re.match(r'^  ([A-Za-z_][\w$!@.\[\]]*)=(.*?)(?: \(([01 ]+)\))?$', ln)
        if m1:
            v = dict(data=m1.group(2))
            if m1.group(3):
                v['binary'] = m1.group(3).replace(' ', '')
            steps.append(dict(stepType='assignment', lhs=m1.group(1), value=v, sourceLocation=dict(function=fn, line=line)))
    return steps

def ensures_labels(spec_text):
    """map (function, N) -> short label of the N-th ensures clause (the comment in front of it, else its text)"""
    lab = {}
    cur = None; n = 0; last_comment = ''
    for ln in spec_text.split('\n'):
        st = ln.strip()
        if st.startswith('@function'):
            cur = st.split()[1]; n = 0; last_comment = ''
        elif st == '@end':
            cur = None
        elif cur:
            if st.startswith('/*'):
                last_comment = st.strip('/* ')
            elif st.startswith('__CPROVER_ensures'):
                n += 1
                lab[(cur, n)] = last_comment or st[:140]
                last_comment = ''
            elif st.startswith('__CPROVER_requires') or st.startswith('__CPROVER_assigns'):
                last_comment = ''
    return lab

def is_reach(desc):
    return desc.startswith('vg_reach')

def run_unit(u, keep=False, jobs=4):
    """returns dict with per-obligation statuses"""
    t0 = time.time()
    wdir = os.path.join(WORK, u['name'].replace('/', '_'))
    if os.path.exists(wdir):
        shutil.rmtree(wdir)
    res = dict(unit=u['name'], enforce=u.get('enforce'), replace=u.get('replace', []),
               solver=u.get('solver', 'sat'), obligations=[], status='ok', note='')
    try:
        b = build_unit(u, wdir)
        res['infos'] = b['infos']
        res['build_s'] = round(b['build_s'], 2)
        timeout = u.get('timeout', 300)
        results = None
        msgs = ''
        if not u.get('split', False):
            results, msgs, dt = run_cbmc(u, b['binary'], None, timeout)
            # cbmc reports obligations behind a failed standard check as UNKNOWN: decide those in a second call
            for _round in range(3):
                if results is None:
                    break
                unk = [x.get('property') for x in results if x.get('status') == 'UNKNOWN']
                if not unk:
                    break
                r2, m2, d2 = run_cbmc(u, b['binary'], unk, timeout)
                if r2 is None:
                    break
                upd = {x.get('property'): x for x in r2 if x.get('property') in unk}
                results = [upd.get(x.get('property'), x) for x in results]
        if results is None and not (u.get('split', False) or u.get('split_fallback', False)):
            raise Undecided('monolithic run of %s: %s' % (u['name'], msgs[:300]))
        if results is None:
            # per-obligation mode
            props = list_properties(u, b['binary'])
            names = [p['name'] for p in props]
            if not names:
                raise Undecided('no obligations generated for %s' % u['name'])
            results = []
            pt = u.get('prop_timeout', timeout)
            # portfolio per obligation: each (route, timeout) in turn until one decides it
            portfolio = u.get('portfolio') or [[u.get('solver', 'sat'), pt]]
            def hard(pn):
                return any(k in pn for k in ('.postcondition', '.precondition', 'loop_invariant', 'loop_step', '.assertion.',
                                             'division', 'overflow', 'loop_decreases')) and not pn.startswith('__CPROVER')
            only_re = os.environ.get('VG_ONLY') or u.get('only')
            if only_re:
                names = [n for n in names if re.search(only_re, n)]
            easy = [n for n in names if not hard(n)]
            todo = [n for n in names if hard(n)]
            if easy:
                # all routine obligations (pointer checks, frame checks, instrumentation library) in one SAT call
                r, mm, d = run_cbmc(u, b['binary'], easy, u.get('easy_timeout', 240), 'cadical')
                if r is None:
                    todo = names
                else:
                    got = set()
                    for x in r:
                        if x.get('property') in easy:
                            x['route'] = 'cadical'
                            results.append(x); got.add(x.get('property'))
                    todo += [n for n in easy if n not in got]
            def one(pn):
                r = None; mm = ''; d = 0
                pf = portfolio
                for pat, hint in (u.get('hints') or {}).items():
                    if re.search(pat, pn):
                        pf = hint + [x for x in portfolio if x not in hint]
                for route, tmo in pf:
                    r, mm, d = run_cbmc(u, b['binary'], [pn], tmo, route, slice_formula=True)
                    if r is not None and any(x.get('property') == pn and x.get('status') in ('SUCCESS', 'FAILURE') for x in r):
                        for x in r:
                            if x.get('property') == pn:
                                x['route'] = route
                        break
                return pn, r, mm, d
            with ThreadPoolExecutor(max_workers=jobs) as ex:
                for pn, r, mm, d in ex.map(one, todo):
                    if r is None:
                        results.append(dict(property=pn, status='UNDECIDED', description=mm))
                    else:
                        for x in r:
                            if x.get('property') == pn:
                                results.append(x)
        if 'ignoring' in msgs:
            res['note'] += 'solver log contains "ignoring" (dropped quantifier?); '
            res['status'] = 'undecided'
        n_reach = 0
        for r in results:
            desc = r.get('description', '')
            st = r.get('status')
            mm = re.match(r'^(\w+)\.postcondition\.(\d+)$', r.get('property') or '')
            if mm:
                for inf in b['infos']:
                    l = inf['labels'].get((mm.group(1), int(mm.group(2))))
                    if l:
                        desc = 'ensures #%s of %s: %s' % (mm.group(2), mm.group(1), l)
            ob = dict(id=r.get('property'), desc=desc, status=st,
                      loc=(r.get('sourceLocation') or {}))
            if st == 'FAILURE' and 'trace' in r:
                ob['trace'] = r['trace']
            wv = [w for w in u.get('waive', []) if w['match'] in desc]
            if wv and st == 'FAILURE':
                ob['status'] = 'WAIVED'
                ob['waived'] = wv[0]['reason']
                ob.pop('trace', None)
            if is_reach(desc):
                if ob['loc'].get('function') != u['entry']:
                    continue    # marker of another harness in the same file: not part of this unit
                n_reach += 1
                ob['expect_fail'] = True
            if r.get('route'):
                ob['route'] = r['route']
            res['obligations'].append(ob)
        if u.get('trace_mode') == 'text':
            todo = [o for o in res['obligations'] if o['status'] == 'FAILURE' and not o.get('expect_fail')][:u.get('max_traces', 3)]
            for o in todo:
                o['trace'] = text_trace(u, b['binary'], o['id'], u.get('timeout', 300))
        if n_reach == 0 and not u.get('no_reach', False):
            res['status'] = 'undecided'
            res['note'] += 'no vg_reach marker: vacuity not guarded; '
        # loop contract presence
        want_loops = u.get('loop_steps')
        if want_loops is not None:
            got = sum(1 for o in res['obligations'] if 'loop invariant is preserved' in o['desc'].lower()
                      or 'loop_invariant_step' in (o['id'] or ''))
            if got < want_loops:
                res['status'] = 'undecided'
                res['note'] += 'expected %d loop_invariant_step obligations, found %d; ' % (want_loops, got)
    except Undecided as e:
        res['status'] = 'undecided'
        res['note'] += str(e)
    finally:
        if not keep and os.path.exists(wdir):
            shutil.rmtree(wdir, ignore_errors=True)
    res['wall_s'] = round(time.time() - t0, 2)
    return res

# ----------------------------------------------------------------------------
def trace_inputs(trace, entry):
    """reduce a CBMC json trace to assignments of harness-level variables and ghost inputs"""
    vals = {}
    for st in trace:
        if st.get('stepType') != 'assignment':
            continue
        if st.get('hidden'):
            continue
        lhs = st.get('lhs', '')
        fn = (st.get('sourceLocation') or {}).get('function', '')
        if lhs.startswith('vg_in_'):
            lhs = lhs[6:]
        elif lhs.startswith('vg_'):
            if fn in ('', '__CPROVER_initialize', '__CPROVER__start'):
                continue        # static initialisation, not the ghost capture
        elif fn != entry:
            continue
        lhs = re.sub(r'[^A-Za-z0-9_]', '_', lhs)
        v = st.get('value', {})
        data = v.get('data')
        if data is not None and v.get('binary') and re.search(r'[.eE]|inf|nan|NaN', str(data)) and not str(data).startswith('('):
            vals.setdefault(lhs, 'bits:' + v['binary'])     # floating point: exact bit pattern
        elif data is not None:
            vals.setdefault(lhs, data)     # first assignment = the input
        elif 'binary' in v:
            vals.setdefault(lhs, v['binary'])
    return vals

def load_known():
    p = os.path.join(VERIF, 'known_findings.json')
    if not os.path.exists(p):
        return dict(findings=[], fixed=[])
    return json.load(open(p))

def native_replay(u, inputs, rfile):
    """if the module provides a native replay driver, run the counterexample on the real code.
    returns True (reproduced) / False (not reproduced) / None (no driver)"""
    m = u['module']
    drv = os.path.join(m['dir'], 'replay.c')
    if not os.path.exists(drv) or not u.get('replay'):
        return None, ''
    wdir = os.path.join(WORK, 'replay_' + u['name'])
    os.makedirs(wdir, exist_ok=True)
    exe = os.path.join(wdir, 'replay')
    srcs = [os.path.join(REPO, s) for s in (u.get('replay_sources') or u.get('sources') or m.get('sources') or [m['source']])]
    cmd = ['gcc', '-g', '-O0', '-fsanitize=address,undefined', '-fno-sanitize-recover=undefined', '-msse4.2',
           '-I' + os.path.join(REPO, 'include'), '-I' + os.path.join(REPO, 'include_prv'), '-I' + os.path.join(REPO, 'src'),
           '-I' + os.path.join(VERIF, 'stubs'), '-I' + m['dir'], '-D__FILENAME__="replay"',
           '-DVG_NATIVE=1', '-DVG_REPLAY_ENTRY=' + u['replay']] + ['-D' + d for d in (m.get('defines', []) + u.get('defines', [])) if d.startswith('VG_')] + [drv] + srcs + \
          [os.path.join(VERIF, x) for x in u.get('replay_link', ['stubs/log_stub.c'])] + ['-o', exe, '-lm', '-lpthread']
    rc, out, err, dt, to = sh(cmd, timeout=120, mem_kb=None)
    if rc != 0:
        return None, 'replay build failed: ' + (out + err)[-1500:]
    env = dict(os.environ)
    env['VG_REPLAY_FILE'] = rfile
    try:
        env['VG_OBLIGATION_DESC'] = str(json.load(open(rfile)).get('description', ''))[:400]     # lets a driver decline clauses it does not exercise
    except Exception:
        env['VG_OBLIGATION_DESC'] = ''
    for k, v in inputs.items():
        if re.match(r'^[A-Za-z_]\w*$', k):
            env['VG_IN_' + k] = str(v)
    env['ASAN_OPTIONS'] = 'detect_leaks=0:allocator_may_return_null=1'
    rc, out, err, dt, to = sh([exe], timeout=60, mem_kb=None, env=env)
    shutil.rmtree(wdir, ignore_errors=True)
    txt = (out + err)[-3000:]
    if to:
        return True, 'native run did not terminate within 60 s\n' + txt
    if 'REPLAY-FAIL' in txt or 'ERROR: AddressSanitizer: ' in txt or 'runtime error:' in txt:
        return True, 'native run exit code %d\n%s' % (rc, txt)
    return False, 'exit code %d\n%s' % (rc, txt)

# ----------------------------------------------------------------------------
def main():
    args = sys.argv[1:]
    if not args:
        print(__doc__); sys.exit(2)
    prop = args[0]
    tier = os.environ.get('VERIF_TIER', 'quick')
    only = []
    keep = False
    jobs = 16
    i = 1
    while i < len(args):
        a = args[i]
        if a in ('quick', 'thorough'):
            tier = a
        elif a == '--unit':
            i += 1; only.append(args[i])
        elif a == '--keep':
            keep = True
        elif a == '--jobs':
            i += 1; jobs = int(args[i])
        i += 1
    seed = int(os.environ.get('VERIF_SEED', '0') or 0)
    t0 = time.time()
    os.makedirs(WORK, exist_ok=True)
    mods = load_modules()
    units = units_for(mods, prop, tier, only)
    meta = json.load(open(os.path.join(VERIF, 'specs', 'properties_meta.json'))).get(prop, {})
    known = load_known()
    if not units:
        print('UNDECIDED property=%s no units registered' % prop)
        sys.exit(2)
    # units run in parallel; each unit may itself use several solver processes in split mode
    results = []
    par_units = max(1, min(len(units), jobs))
    inner = max(1, jobs // par_units)
    # memory-aware admission: the estimated peak memory (unit option est_gb, default 3) of the units running at the same time stays
    # below VERIF_MEM_BUDGET_GB (default 40); a unit larger than the budget runs alone
    budget = float(os.environ.get('VERIF_MEM_BUDGET_GB', '40'))
    import threading
    cond = threading.Condition(); in_use = [0.0]
    def admitted(u, keep, inner):
        need = min(float(u.get('est_gb', 3)), budget)
        with cond:
            while in_use[0] + need > budget and in_use[0] > 0:
                cond.wait()
            in_use[0] += need
        try:
            return run_unit(u, keep, inner)
        finally:
            with cond:
                in_use[0] -= need
                cond.notify_all()
    units = sorted(units, key=lambda u: -float(u.get('est_gb', 3)))     # big ones first
    with ThreadPoolExecutor(max_workers=par_units) as ex:
        futs = {ex.submit(admitted, u, keep, inner): u for u in units}
        for f in as_completed(futs):
            results.append((futs[f], f.result()))
    results.sort(key=lambda t: t[1]['unit'])

    violations = []
    undecided = []
    known_lines = []
    n_obl = n_dis = 0
    b_obl = b_dis = 0
    samples = []
    functions = set()
    replaced = set()
    os.makedirs(os.path.join(VERIF, 'replays', prop), exist_ok=True)
    unit_summ = []
    kinds = {}
    waived = []
    for u, r in results:
        kf = u.get('known_finding')
        if r['status'] == 'undecided':
            undecided.append('%s: %s' % (r['unit'], r['note']))
        fails = []
        u_obl = u_dis = 0
        for o in r['obligations']:
            if o.get('expect_fail'):
                if o['status'] == 'SUCCESS':
                    undecided.append('%s: vacuous -- reachability marker "%s" is unreachable' % (r['unit'], o['desc']))
                elif o['status'] != 'FAILURE':
                    undecided.append('%s: reach marker %s: %s' % (r['unit'], o['desc'], o['status']))
                continue
            u_obl += 1
            if o['status'] == 'SUCCESS':
                u_dis += 1
            elif o['status'] == 'FAILURE':
                fails.append(o)
            elif o['status'] == 'WAIVED':
                u_obl -= 1
                waived.append('%s: %s [%s]' % (r['unit'], o['desc'][:140], o.get('waived')))
            else:
                undecided.append('%s: obligation %s: %s %s' % (r['unit'], o['id'], o['status'], o['desc'][:200]))
        if kf:
            # a known-finding variant: the named defect is expected to fail here
            ent = [k for k in known.get('findings', []) if k['id'] == kf and k['property'] == prop]
            if fails:
                if ent:
                    known_lines.append('KNOWN-FINDING: property=%s %s (%s; unit %s, obligation %s)' %
                                       (prop, ent[0]['what'], kf, r['unit'], fails[0]['id']))
                else:
                    violations += [(u, r, o) for o in fails]
            # not counted in obligations
            unit_summ.append(dict(unit=r['unit'], role='known-finding variant ' + kf, failed=len(fails), wall_s=r['wall_s']))
            continue
        if u.get('bounded') and meta.get('level', 'proof') == 'proof':
            b_obl += u_obl; b_dis += u_dis      # bounded stand-ins are reported, never counted among the proof obligations
        else:
            n_obl += u_obl; n_dis += u_dis
        for o in r['obligations']:
            if o.get('expect_fail'): continue
            f = (o['loc'].get('file') or '')
            oid = o['id'] or ''
            if 'builtin-library' in f or f.startswith('<'):
                k = 'instrumentation_library'
            elif '.postcondition.' in oid: k = 'postcondition'
            elif '.precondition' in oid: k = 'callee_precondition'
            elif '.assigns.' in oid: k = 'frame_assigns'
            elif 'loop_invariant' in oid or 'loop_decreases' in oid or 'loop_assigns' in oid or 'loop_step' in oid: k = 'loop_contract'
            elif '.assertion.' in oid: k = 'assertion'
            else: k = 'safety_check'
            kinds[k] = kinds.get(k, 0) + 1
        violations += [(u, r, o) for o in fails]
        if u.get('enforce'):
            functions.add(u['enforce'] if isinstance(u['enforce'], str) else ','.join(u['enforce']))
        for x in u.get('replace', []):
            replaced.add(x)
        for o in r['obligations'][:3]:
            samples.append(dict(unit=r['unit'], obligation=o['id'], description=o['desc'][:160], status=o['status']))
        unit_summ.append(dict(unit=r['unit'], function=u.get('enforce'), replaced=u.get('replace', []),
                              back_end=u.get('solver', 'sat'), obligations=u_obl, discharged=u_dis,
                              wall_s=r['wall_s'], build_s=r.get('build_s'),
                              bounded=u.get('bounded'), status=r['status'], note=r['note'],
                              sources=[dict(source=i['source'], functions_annotated=i['functions_annotated'], loops_annotated=i['loops_annotated'], src_sha256=i['src_sha256'][:16],
                                            injected_sha256=i['injected_sha256'][:16],
                                            dropped=i['dropped_keywords']) for i in r.get('infos', [])]))

    viol_lines = []
    for u, r, o in violations:
        rid = re.sub(r'[^A-Za-z0-9_.-]', '_', '%s.%s' % (r['unit'], o['id']))
        rpath = os.path.join(VERIF, 'replays', prop, rid + '.json')
        inputs = trace_inputs(o.get('trace', []), u['entry']) if o.get('trace') else {}
        rep = dict(property=prop, unit=r['unit'], function=u.get('enforce'), obligation=o['id'],
                   description=o['desc'], location=o['loc'], inputs=inputs,
                   verifier='cbmc 6.11.0 / %s' % u.get('solver', 'sat'),
                   verifier_output=[dict(step=s.get('stepType'), lhs=s.get('lhs'), value=(s.get('value') or {}).get('data'),
                                         fn=(s.get('sourceLocation') or {}).get('function'),
                                         line=(s.get('sourceLocation') or {}).get('line'))
                                    for s in (o.get('trace') or []) if s.get('stepType') in ('assignment', 'failure')
                                    and not s.get('hidden')][-400:])
        json.dump(rep, open(rpath, 'w'), indent=1)
        ok, txt = native_replay(u, inputs, rpath) if inputs else (None, '')
        rep['native_replay'] = dict(reproduced=ok, output=txt)
        json.dump(rep, open(rpath, 'w'), indent=1)
        line = 'VIOLATION property=%s replay=%s' % (prop, rpath)
        info = ' unit=%s obligation=%s "%s"' % (r['unit'], o['id'], o['desc'][:120])
        if ok is True:
            viol_lines.append((line, info + ' reproduced-natively'))
        else:
            viol_lines.append((line + ' no-failing-input-found', info))

    wall = time.time() - t0
    assumptions = list(meta.get('assumptions', []))
    for u, r in results:
        for a in u.get('assumptions', []):
            if a not in assumptions:
                assumptions.append(a)
    WAIVE_TEXT = {
        'A-PTRCMP': 'comparisons of the form (cur + n) > end form a pointer up to n bytes past the allocation (undefined by the letter of C11 6.5.6p8, no memory access); treated as an integer comparison on a flat address space',
        'A-TSRANGE': 'sample ids and timestamps stored in a time map are below 2^61 in magnitude, so differences of two of them do not overflow int64 (cannot be stated for every entry without a quantifier; stated for the witness pair only)',
    }
    for code in sorted(set(w.rsplit('[', 1)[-1].rstrip(']') for w in waived)):
        n = sum(1 for w in waived if w.endswith('[%s]' % code))
        assumptions.append('%s: %s; %d such checks waived, not counted as obligations' % (code, WAIVE_TEXT.get(code, 'see DESIGN.md'), n))
    unproved = sorted(x for x in replaced if x not in all_enforced(mods))
    for x in unproved:
        assumptions.append('contract of %s is used (replaced) but enforced by no unit: ASSUMED' % x)
    bounded = [s['unit'] for s in unit_summ if s.get('bounded')]
    level = meta.get('level', 'proof')
    ev = dict(property_id=prop, tier=tier, seed=seed, level=level,
              coverage=dict(obligations=n_obl, discharged=n_dis,
                            checker_cmd='python3 tools/check.py %s %s  (goto-cc | goto-instrument --dfcc --enforce-contract F --replace-call-with-contract G --apply-loop-contracts | cbmc)' % (prop, tier),
                            trusted_base=meta.get('trusted_base', []) + ['cbmc 6.11.0 front end + dfcc instrumentation', 'SAT: minisat2/cadical/kissat; SMT: cvc5 1.0 --solve-bv-as-int=sum'],
                            functions_under_contract=sorted(functions),
                            contracts_used_by_replacement=sorted(replaced),
                            obligation_kinds=kinds,
                            units=unit_summ,
                            bounded_units=bounded,
                            bounded_obligations=b_obl, bounded_discharged=b_dis,
                            counting_rule='level proof: obligations/discharged count contract units only; units with a stated bound are listed in bounded_units and counted in bounded_obligations/bounded_discharged; level other: every unit is counted and the bounds are stated per unit',
                            solver_wall_s=round(sum(s.get('wall_s', 0) for s in unit_summ), 1),
                            undecided=undecided,
                            waived_checks=waived,
                            known_findings_reported=known_lines,
                            not_covered=meta.get('not_covered', []),
                            samples=samples[:12],
                            explanation=meta.get('explanation', ''),
                            evaluations=max(n_obl, 1), distinct_nontrivial=max(n_dis, 0),
                            rule='one evaluation = one proof obligation generated by goto-instrument/cbmc for a function under contract; distinct_nontrivial = obligations with status SUCCESS excluding vacuity markers'),
              assumptions=assumptions, wall_s=round(wall, 1), violations=len(viol_lines))
    os.makedirs(os.path.join(VERIF, 'evidence'), exist_ok=True)
    json.dump(ev, open(os.path.join(VERIF, 'evidence', prop + '.json'), 'w'), indent=1)

    for l in known_lines:
        print(l)
    for s in unit_summ:
        print('unit %-28s %s obligations=%s discharged=%s %.1fs %s' % (s['unit'], s.get('function') or s.get('role'),
              s.get('obligations'), s.get('discharged'), s['wall_s'], s.get('note') or ''))
    if viol_lines:
        for l, info in viol_lines:
            print(l)
            print('  ' + info.strip())
        sys.exit(1)
    if undecided:
        for x in undecided:
            print('UNDECIDED property=%s %s' % (prop, x[:600]))
        sys.exit(2)
    print('OK property=%s units=%d obligations=%d discharged=%d wall=%.1fs' % (prop, len(unit_summ), n_obl, n_dis, wall))
    sys.exit(0)

def all_enforced(mods):
    s = set()
    for m in mods:
        for u in m['units']:
            e = u.get('enforce')
            if isinstance(e, str): s.add(e)
            elif e: s.update(e)
    return s

if __name__ == '__main__':
    main()
