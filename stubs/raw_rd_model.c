#include "raw_rd_model.h"
#include "jls/raw.h"
#include "jls/ec.h"
uint64_t vg_raw_nrd, vg_raw_nseek, vg_raw_nwr; int64_t vg_last_seek;
int32_t nondet_i32(void); uint8_t nondet_u8(void); uint16_t nondet_u16(void); uint32_t nondet_u32(void); uint64_t nondet_u64(void);

int32_t jls_raw_chunk_seek(struct jls_raw_s * self, int64_t offset) {
    vg_raw_nseek++; vg_last_seek = offset;
    if (offset <= 0) return JLS_ERROR_IO;
    self->offset = offset;
    return 0;
}
int64_t jls_raw_chunk_tell(struct jls_raw_s * self) { return self->offset; }
/* the header stored at the current offset: arbitrary, but the same each time the same offset is read */
static void vg_load_hdr(struct jls_raw_s * self) {
    if (self->hdr_offset != self->offset) {
        self->hdr.item_next = nondet_u64(); self->hdr.item_prev = nondet_u64(); self->hdr.tag = nondet_u8(); self->hdr.rsv0_u8 = nondet_u8();
        self->hdr.chunk_meta = nondet_u16(); self->hdr.payload_length = nondet_u32(); self->hdr.payload_prev_length = nondet_u32(); self->hdr.crc32 = nondet_u32();
        __CPROVER_assume(self->hdr.payload_length <= 0xfffffff0u);
        self->hdr_offset = self->offset;
    }
}
int32_t jls_raw_rd(struct jls_raw_s * self, struct jls_chunk_header_s * hdr, uint32_t payload_length_max, uint8_t * payload) {
    vg_raw_nrd++;
    hdr->tag = JLS_TAG_INVALID;
    int32_t rc = nondet_i32();
    if (rc == JLS_ERROR_EMPTY || rc == JLS_ERROR_IO || rc == JLS_ERROR_MESSAGE_INTEGRITY) return rc;       /* header not readable / CRC mismatch */
    vg_load_hdr(self);
    *hdr = self->hdr;
    uint32_t sz = vg_disk_size(self->hdr.payload_length);
    if (sz > payload_length_max) return JLS_ERROR_TOO_BIG;
    if (sz) { __CPROVER_havoc_slice(payload, sz); }
    if (nondet_i32() == 1) return JLS_ERROR_MESSAGE_INTEGRITY;                                              /* payload CRC mismatch (bytes already in the buffer) */
    self->offset += 32 + (int64_t) sz;
    return 0;
}
