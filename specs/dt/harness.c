/* harness for datatype.c -- included at the end of the injected TU */
#include "vg.h"
#include <stdlib.h>
size_t vg_k;
#ifndef VG_DT
#define VG_DT JLS_DATATYPE_I16
#endif
void h_dt_tof64(void) {
    size_t n; __CPROVER_assume(n >= 1 && n <= VG_DT_MAX);
    size_t k_; vg_k = k_;      /* arbitrary witness index (globals are zero-initialised when no contract instrumentation havocs them) */
#ifdef VG_DT_BOUND
    __CPROVER_assume(n <= VG_DT_BOUND && vg_k < n);
#endif
    uint32_t dt = VG_DT;        /* one data type per unit variant (constant: the other conversion loops are pruned) */
    void * src = malloc((n * ((dt >> 8) & 0xff) + 7) / 8);
    double * dst = malloc((n + 1) * sizeof(double));
    __CPROVER_assume(src != NULL && dst != NULL);
    int32_t rc = jls_dt_buffer_to_f64(src, dt, dst, n);
#ifdef VG_DT_BOUND
    __CPROVER_assert(rc == 0 && (dst[vg_k] == vg_sample_f64(src, dt, vg_k) || (dst[vg_k] != dst[vg_k] && vg_sample_f64(src, dt, vg_k) != vg_sample_f64(src, dt, vg_k))), "C02 bounded: sample value conversion");
#endif
    VG_REACH(tof64_returns);
    if (n > 3 && vg_k == n - 1) { VG_REACH(tof64_last_sample); }
}
