/* bounded harness for jls_core_rd_fsr_data0 (with the real jls_core_rd_fsr_level1): two consecutive block lookups on one signal.
 * File model: one level-1 INDEX chunk at offset VG_OI (start VG_TI, 2 entries, samples_per_data 64) immediately followed by its SUMMARY;
 * each entry is the offset of a DATA chunk or 0 (omitted block).  Every chunk read may fail before the header (nothing changes) or after
 * it (payload CRC: chunk_cur names the chunk, the payload buffer holds garbage).  Chunk contents carry a ghost tag, so the harness can
 * tell whether the buffers hold what is stored in the file.  C04/C01: a lookup that returns success leaves the stored block (or, for an
 * omitted block, the stored index and summary) in the buffers -- never the remains of a failed read. */
#include "vg.h"
#include <stdlib.h>
#ifndef VG_SIG
#define VG_SIG 5
#endif
#define VG_SPD 64
#define VG_OI 4096
#define VG_OS 4200
int32_t nondet_i32(void); int64_t nondet_i64(void); uint32_t nondet_u32(void); uint8_t nondet_u8(void); _Bool nondet_bool(void);
static int64_t vg_pos;             /* raw position */
static int64_t vg_ti;              /* first sample id of the index chunk */
static int64_t vg_doff[2];         /* data chunk offsets (0 = omitted) */
static uint64_t vg_tag_index, vg_tag_summary, vg_tag_data[2];
static int vg_recon_calls, vg_recon_bad;
static int vg_dummy_raw;
struct vg_chunk_img { struct jls_payload_header_s header; uint64_t w[3]; };   /* what the models put into a payload buffer: header + 3 words */

int32_t jls_raw_chunk_seek(struct jls_raw_s * self, int64_t offset) { (void) self; if (offset <= 0) return JLS_ERROR_IO; vg_pos = offset; return 0; }
int32_t jls_buf_copy(struct jls_buf_s * self, const struct jls_buf_s * src) {
    *(struct vg_chunk_img *) self->start = *(const struct vg_chunk_img *) src->start;
    self->length = src->length;
    return 0;
}
int32_t vg_model_fsr_seek(struct jls_core_s * self, uint16_t signal_id, uint8_t level, int64_t sample_id) {
    (void) self; (void) signal_id;
    if (level != 1 || sample_id < vg_ti || sample_id >= vg_ti + 2 * VG_SPD) return JLS_ERROR_NOT_FOUND;
    if (nondet_bool()) return JLS_ERROR_IO;
    vg_pos = VG_OI;
    return 0;
}
static void vg_fill(struct jls_core_s * self, uint8_t tag, int64_t ts, uint32_t count, uint16_t bits, uint64_t w0, uint64_t w1, uint64_t w2, _Bool garbage) {
    struct vg_chunk_img * p = (struct vg_chunk_img *) self->buf->start;
    self->chunk_cur.offset = vg_pos; self->chunk_cur.hdr.tag = tag; self->chunk_cur.hdr.chunk_meta = (tag == JLS_TAG_TRACK_FSR_DATA) ? VG_SIG : ((1 << 12) | VG_SIG);
    self->chunk_cur.hdr.payload_length = sizeof(*p);
    if (garbage) {
        p->header.timestamp = nondet_i64(); p->header.entry_count = nondet_u32(); p->header.entry_size_bits = bits; p->header.rsv16 = 0;
        p->w[0] = (uint64_t) nondet_i64(); p->w[1] = (uint64_t) nondet_i64(); p->w[2] = (uint64_t) nondet_i64();
    } else {
        p->header.timestamp = ts; p->header.entry_count = count; p->header.entry_size_bits = bits; p->header.rsv16 = 0;
        p->w[0] = w0; p->w[1] = w1; p->w[2] = w2;
    }
    self->buf->length = sizeof(*p);
}
int32_t vg_model_rd_chunk(struct jls_core_s * self) {
    if (nondet_bool()) return JLS_ERROR_IO;                     /* header unreadable: nothing changes */
    _Bool bad = nondet_bool();                                  /* payload CRC mismatch */
    if (vg_pos == VG_OI) {
        vg_fill(self, JLS_TAG_TRACK_FSR_INDEX, vg_ti, 2, 64, (uint64_t) vg_doff[0], (uint64_t) vg_doff[1], vg_tag_index, bad);
        if (!bad) vg_pos = VG_OS;
    } else if (vg_pos == VG_OS) {
        vg_fill(self, JLS_TAG_TRACK_FSR_SUMMARY, vg_ti, 8, 128, vg_tag_summary, 0, 0, bad);
        if (!bad) vg_pos = VG_OS + 200;
    } else if (vg_doff[0] && vg_pos == vg_doff[0]) {
        vg_fill(self, JLS_TAG_TRACK_FSR_DATA, vg_ti, VG_SPD, 8, vg_tag_data[0], 0, 0, bad);
    } else if (vg_doff[1] && vg_pos == vg_doff[1]) {
        vg_fill(self, JLS_TAG_TRACK_FSR_DATA, vg_ti + VG_SPD, VG_SPD, 8, vg_tag_data[1], 0, 0, bad);
    } else {
        return JLS_ERROR_IO;
    }
    return bad ? JLS_ERROR_MESSAGE_INTEGRITY : 0;
}
int32_t vg_model_reconstruct(struct jls_core_s * self, uint16_t signal_id, int64_t start_sample_id) {
    (void) signal_id; (void) start_sample_id;
    vg_recon_calls++;
    const struct vg_chunk_img * i = (const struct vg_chunk_img *) self->rd_index->start;
    const struct vg_chunk_img * s = (const struct vg_chunk_img *) self->rd_summary->start;
    if (i->w[2] != vg_tag_index || i->header.timestamp != vg_ti || s->w[0] != vg_tag_summary || s->header.timestamp != vg_ti) { vg_recon_bad++; }
    struct vg_chunk_img * p = (struct vg_chunk_img *) self->buf->start;      /* the reconstructed block (type u8) */
    p->header.timestamp = vg_ti + ((start_sample_id - vg_ti) / VG_SPD) * VG_SPD; p->header.entry_count = VG_SPD; p->header.entry_size_bits = 8; p->header.rsv16 = 0;
    return 0;
}

static void vg_check(struct jls_core_s * c, int32_t rc, int64_t s, const char * unused) {
    (void) unused;
    if (rc) return;
    int k = (int) ((s - vg_ti) / VG_SPD);
    const struct vg_chunk_img * p = (const struct vg_chunk_img *) c->buf->start;
    if (vg_doff[k]) {
        __CPROVER_assert(p->header.timestamp == vg_ti + k * VG_SPD && p->w[0] == vg_tag_data[k],
                         "C04/C01: after a successful lookup the payload buffer holds the stored block that contains the sample");
    } else {
        __CPROVER_assert(vg_recon_bad == 0 && vg_recon_calls > 0, "C04/C15: an omitted block is reconstructed from the stored index and summary of its range");
    }
}

void h_rd_data0(void) {
    struct jls_core_s * c = malloc(sizeof(*c));
    __CPROVER_assume(c != NULL);
    struct jls_buf_s * b = malloc(sizeof(*b)); struct jls_buf_s * bi = malloc(sizeof(*bi)); struct jls_buf_s * bs = malloc(sizeof(*bs));
    __CPROVER_assume(b != NULL && bi != NULL && bs != NULL);
    b->start = malloc(sizeof(struct vg_chunk_img)); bi->start = malloc(sizeof(struct vg_chunk_img)); bs->start = malloc(sizeof(struct vg_chunk_img));
    __CPROVER_assume(b->start != NULL && bi->start != NULL && bs->start != NULL);
    struct jls_core_signal_s * si = &c->signal_info[VG_SIG];
    /* reader state as jls_rd_open leaves it: nothing cached */
    __CPROVER_assume(c->buf == b && c->rd_index == bi && c->rd_summary == bs && c->raw == (struct jls_raw_s *) &vg_dummy_raw
        && c->rd_index_chunk.offset == 0 && c->rd_index_chunk.hdr.chunk_meta == 0 && c->rd_summary_chunk.offset == 0
        && c->chunk_cur.offset == 0 && c->chunk_cur.hdr.tag == 0
        && si->signal_def.signal_id == VG_SIG && si->signal_def.signal_type == JLS_SIGNAL_TYPE_FSR && si->chunk_def.offset == 64
        && si->signal_def.data_type == JLS_DATATYPE_U8 && si->signal_def.samples_per_data == VG_SPD && si->signal_def.sample_decimate_factor == 32);
    int64_t ti, s1, s2, d0, d1;
    __CPROVER_assume(ti > -(1ll << 60) && ti < (1ll << 60) && s1 >= ti && s1 < ti + 2 * VG_SPD && s2 >= ti && s2 < ti + 2 * VG_SPD);
    __CPROVER_assume((d0 == 0 || (d0 >= 8192 && d0 < (1ll << 50))) && (d1 == 0 || (d1 >= 8192 && d1 < (1ll << 50))) && (d0 != d1 || d0 == 0));
    vg_ti = ti; vg_doff[0] = d0; vg_doff[1] = d1; vg_pos = 0; vg_recon_calls = 0; vg_recon_bad = 0;
    vg_tag_index = (uint64_t) nondet_i64(); vg_tag_summary = (uint64_t) nondet_i64(); vg_tag_data[0] = (uint64_t) nondet_i64(); vg_tag_data[1] = (uint64_t) nondet_i64();
    int32_t rc1 = jls_core_rd_fsr_data0(c, VG_SIG, s1);
    vg_check(c, rc1, s1, "first");
    int rec1 = vg_recon_calls; vg_recon_calls = 0;
    int32_t rc2 = jls_core_rd_fsr_data0(c, VG_SIG, s2);
    vg_check(c, rc2, s2, "second");
    (void) rec1;
    VG_REACH(data0_returns);
    if (rc1 != 0 && rc2 == 0) { VG_REACH(data0_success_after_failure); }
    if (rc1 == 0 && rc2 == 0 && vg_doff[0] == 0 && s2 < ti + VG_SPD) { VG_REACH(data0_omitted_block); }
}
