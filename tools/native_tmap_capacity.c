#include "jls/tmap.h"
#include <stdio.h>
int main(void) { struct jls_tmap_s * m = jls_tmap_alloc(1000.0);
  for (int i = 0; i < 1000; ++i) jls_tmap_add(m, (int64_t) i * 1000, (int64_t) i * (1LL<<30));
  int64_t t = 0; int rc = jls_tmap_sample_id_to_timestamp(m, 999 * 1000 + 500, &t); printf("rc=%d t=%lld\n", rc, (long long) t); jls_tmap_free(m); return 0; }
