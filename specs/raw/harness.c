/* harnesses for raw.c -- included at the end of the injected TU */
#include "vg.h"
uint32_t vg_k;
int64_t vg_fpos0, vg_fend0, vg_offset0; uint8_t vg_cell0; uint32_t vg_last0; uint64_t vg_nwr0, vg_nip0;
struct jls_chunk_header_s vg_hdr0;

static struct jls_raw_s * vg_mk_raw(void) {
    struct jls_raw_s * r = malloc(sizeof(*r));
    __CPROVER_assume(r != NULL);
    r->backend.fd = 3;
    vg_write_forbidden = 0;
    return r;
}

void h_raw_disk(void) { uint32_t n; uint32_t r = payload_size_on_disk(n); VG_REACH(disk_returns); }

void h_raw_wr_payload(void) {
    struct jls_raw_s * r = vg_mk_raw();
    uint32_t n;
    uint8_t * p = malloc(n);
    __CPROVER_assume(n == 0 || p != NULL);
    int32_t rc = jls_raw_wr_payload(r, n, p);
    VG_REACH(wr_payload_returns);
    if (n > 100 && (n & 7) == 3) { VG_REACH(wr_payload_padded); }
    if (n == 0) { VG_REACH(wr_payload_empty); }
}

void h_raw_wr_header(void) {
    struct jls_raw_s * r = vg_mk_raw();
    struct jls_chunk_header_s * h = malloc(sizeof(*h));
    __CPROVER_assume(h != NULL);
    int32_t rc = jls_raw_wr_header(r, h);
    VG_REACH(wr_header_returns);
    if (vg_fpos0 < vg_fend0) { VG_REACH(wr_header_in_place); } else { VG_REACH(wr_header_append); }
}

void h_raw_rd_header(void) {
    struct jls_raw_s * r = vg_mk_raw();
    struct jls_chunk_header_s * h = malloc(sizeof(*h));
    _Bool with_hdr;
    if (!with_hdr) { h = NULL; }
    int32_t rc = jls_raw_rd_header(r, h);
    VG_REACH(rd_header_returns);
    if (rc == 0 && vg_hdr0.tag == JLS_TAG_INVALID) { VG_REACH(rd_header_fresh_ok); }
    if (rc == JLS_ERROR_MESSAGE_INTEGRITY) { VG_REACH(rd_header_crc_error); }
    if (rc == 0 && vg_hdr0.tag != JLS_TAG_INVALID) { VG_REACH(rd_header_cached); }
}

void h_raw_rd_payload(void) {
    struct jls_raw_s * r = vg_mk_raw();
    uint32_t max;
    uint8_t * p = malloc(max);
    __CPROVER_assume(max == 0 || p != NULL);
    int32_t rc = jls_raw_rd_payload(r, max, p);
    VG_REACH(rd_payload_returns);
    if (rc == 0 && vg_hdr0.payload_length > 20) { VG_REACH(rd_payload_ok); }
    if (rc == JLS_ERROR_TOO_BIG) { VG_REACH(rd_payload_too_big); }
    if (rc == JLS_ERROR_MESSAGE_INTEGRITY) { VG_REACH(rd_payload_crc_error); }
}
