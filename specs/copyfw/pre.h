#ifndef VG_COPYFW_PRE_H
#define VG_COPYFW_PRE_H
#include <stdint.h>
#include <stddef.h>
#endif
