/* harnesses for the signal-definition units -- included at the end of the injected core.c */
#include "vg.h"
_Bool vg_def_normal_flag;

void h_roundup(void) {
    uint32_t x, m;
    uint32_t r = round_up_to_multiple(x, m);
    VG_REACH(roundup_returns);
}

void h_def_defaults(void) {
    struct jls_signal_def_s * def;
    signal_def_defaults(def);
    VG_REACH(defaults_returns);
}

void h_def_align(void) {
    struct jls_signal_def_s * def;
    int32_t rc = jls_core_signal_def_align(def);
    VG_REACH(align_returns);
}

void h_lemma_divmul(void) { uint32_t a, b; vg_lemma_divmul(a, b); VG_REACH(lemma_divmul); }
void h_lemma_muldiv(void) { uint32_t a, b; vg_lemma_muldiv(a, b); VG_REACH(lemma_muldiv); }
void h_lemma_mulmono(void) { uint32_t a, b, c; vg_lemma_mulmono(a, b, c); VG_REACH(lemma_mulmono); }
void h_lemma_align_core(void) { uint32_t a, b, c, d, e, f; vg_lemma_align_core(a, b, c, d, e, f); VG_REACH(lemma_align_core); }
void h_lemma_bits(void) { uint32_t a, b; vg_lemma_bits(a, b); VG_REACH(lemma_bits); }
