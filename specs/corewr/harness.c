/* harnesses for the chunk-list units -- included at the end of the injected raw.c (struct jls_raw_s is visible here) */
#include "vg.h"
#include "../raw/raw_ghost_defs.h"
#include "jls/core.h"
#include "jls/track.h"

/* zeroed: for the chunk-list / track units, which only follow core->raw and the list heads they are handed (the rest of the 1.6 MB record is not read);
 * a fully arbitrary record is used where its content matters (vg_mk_core_nondet: signal validation) */
static struct jls_core_s * vg_mk_core_nondet(void) {
    struct jls_core_s * c = malloc(sizeof(*c));
    __CPROVER_assume(c != NULL);
    c->raw = malloc(sizeof(struct jls_raw_s));
    __CPROVER_assume(c->raw != NULL);
    c->raw->backend.fd = 3;
    vg_write_forbidden = 0;
    return c;
}
static struct jls_core_s * vg_mk_core(void) {
    struct jls_core_s * c = calloc(1, sizeof(*c));
    __CPROVER_assume(c != NULL);
    c->raw = malloc(sizeof(struct jls_raw_s));
    __CPROVER_assume(c->raw != NULL);
    c->raw->backend.fd = 3;
    vg_write_forbidden = 0;
    return c;
}

void h_core_upditem(void) {
    struct jls_core_s * c = vg_mk_core();
    struct jls_core_chunk_s * head = malloc(sizeof(*head));
    struct jls_core_chunk_s * next = malloc(sizeof(*next));
    __CPROVER_assume(head != NULL && next != NULL);
    int32_t rc = jls_core_update_item_head(c, head, next);
    VG_REACH(upditem_returns);
    if (vg_nwrites > 0 && vg_hoff == vg_ip_pos) { VG_REACH(upditem_rewrote_witness_header); }
}

void h_core_sigvalid(void) {
    struct jls_core_s * c = vg_mk_core_nondet();
    uint16_t id;
    int32_t rc = jls_core_signal_validate(c, id);
    VG_REACH(sigvalid_returns);
    if (rc == 0 && id == 200) { VG_REACH(sigvalid_ok); }
    if (rc != 0 && id < 256) { VG_REACH(sigvalid_undefined); }
}
void h_core_sigvalid_typed(void) {
    struct jls_core_s * c = vg_mk_core_nondet();
    uint16_t id; enum jls_signal_type_e t;
    int32_t rc = jls_core_signal_validate_typed(c, id, t);
    VG_REACH(sigvalid_typed_returns);
    if (rc == 0) { VG_REACH(sigvalid_typed_ok); }
}

void h_track_update(void) {
    struct jls_core_s * c = vg_mk_core();
    /* the track record is a separate small object (a byte read at a symbolic offset inside the 1.6 MB core record exhausts memory);
     * jls_track_update reaches the core only through track->parent->parent */
    struct jls_core_signal_s * sig = calloc(1, sizeof(*sig));
    struct jls_core_track_s * track = malloc(sizeof(*track));
    __CPROVER_assume(sig != NULL && track != NULL);
    sig->parent = c;
    track->parent = sig; track->track_type = JLS_TRACK_TYPE_FSR;
    uint8_t level; int64_t pos;
    int32_t rc = jls_track_update(track, level, pos);
    VG_REACH(track_update_returns);
    if (rc == 0 && vg_ninplace >= 2) { VG_REACH(track_update_rewrote_table); }
}
