#ifndef VG_WRSUM1_PRE_H
#define VG_WRSUM1_PRE_H
#include <stdint.h>
#include <stddef.h>
struct jls_core_fsr_s;
int32_t vg_model_wr_summary(struct jls_core_fsr_s * self, uint8_t level);
/* gcc's <math.h> expands isfinite() to __builtin_isfinite, which goto-cc 6.11 has no body for: mapped to the CBMC primitive */
#include <math.h>
#define __builtin_isfinite(x) __CPROVER_isfinited((double) (x))
#endif
