/* harness for jls_core_user_data -- included at the end of the injected reader.c */
#include "vg.h"
#include <stdlib.h>
struct jls_core_s * vg_core; uint64_t vg_ncb;
size_t vg_o, vg_k, vg_len0, vg_cur0, vg_end0, vg_alloc0; uint8_t vg_byte0;
_Bool nondet_bool(void);

/* the application callback: checks what it is handed against the chunk that was just read (C13: tag, storage type, size and bytes unchanged) */
static int32_t vg_ud_cbk(void * user_data, uint16_t chunk_meta, enum jls_storage_type_e storage_type, uint8_t * data, uint32_t size) {
    (void) user_data;
    vg_ncb++;
    __CPROVER_assert(data == vg_core->buf->start, "C13: the callback receives the buffer that holds the chunk just read (not a pointer from before a reallocation)");
    __CPROVER_assert(size == vg_core->chunk_cur.hdr.payload_length && size == vg_core->buf->length, "C13: user-data size is the payload length of the chunk");
    __CPROVER_assert(chunk_meta == (vg_core->chunk_cur.hdr.chunk_meta & 0x0fff) && (unsigned) storage_type == ((vg_core->chunk_cur.hdr.chunk_meta >> 12) & 0x0fu),
                     "C13: 12-bit tag and storage type are unpacked from chunk_meta");
    __CPROVER_assert(vg_core->chunk_cur.hdr.tag == JLS_TAG_USER_DATA && vg_core->chunk_cur.offset == vg_last_seek, "C13: only USER_DATA chunks at the followed link are delivered");
    __CPROVER_assert(size == 0 || __CPROVER_r_ok(data, size), "C13/C10: the delivered bytes lie inside the library's buffer");
    return nondet_bool() ? 1 : 0;
}

void h_rd_userdata(void) {
    struct jls_core_s * c = malloc(sizeof(*c));
    __CPROVER_assume(c != NULL);
    c->raw = malloc(sizeof(struct jls_raw_s)); __CPROVER_assume(c->raw != NULL);
    c->buf = malloc(sizeof(*c->buf)); __CPROVER_assume(c->buf != NULL);
    size_t alloc; __CPROVER_assume(alloc >= 16 && alloc <= (1u << 20));
    c->buf->start = malloc(alloc); __CPROVER_assume(c->buf->start != NULL);
    c->buf->cur = c->buf->start; c->buf->end = c->buf->start; c->buf->length = 0; c->buf->alloc_size = alloc; c->buf->strings_head = NULL; c->buf->strings_tail = NULL;
    __CPROVER_assume(c->raw->offset >= 0 && c->raw->offset <= (1ll << 56) && vg_o < alloc);
    vg_core = c;
    int32_t rc = jls_core_user_data(c, vg_ud_cbk, NULL);
    VG_REACH(userdata_returns);
    if (vg_ncb > 0) { VG_REACH(userdata_delivered); }
}
