/* harnesses for raw.c -- included at the end of the injected TU */
#include "vg.h"
#include "raw_ghost_defs.h"

static struct jls_raw_s * vg_mk_raw(void) {
    struct jls_raw_s * r = malloc(sizeof(*r));
    __CPROVER_assume(r != NULL);
    r->backend.fd = 3;
    vg_write_forbidden = 0;
    return r;
}

void h_raw_disk(void) { uint32_t n; uint32_t r = payload_size_on_disk(n); VG_REACH(disk_returns); }

void h_raw_wr_payload(void) {
    struct jls_raw_s * r = vg_mk_raw();
    uint32_t n;
    uint8_t * p = malloc(n);
    __CPROVER_assume(n == 0 || p != NULL);
    int32_t rc = jls_raw_wr_payload(r, n, p);
    VG_REACH(wr_payload_returns);
    if (n > 100 && (n & 7) == 3) { VG_REACH(wr_payload_padded); }
    if (n == 0) { VG_REACH(wr_payload_empty); }
}

void h_raw_wr_header(void) {
    struct jls_raw_s * r = vg_mk_raw();
    struct jls_chunk_header_s * h = malloc(sizeof(*h));
    __CPROVER_assume(h != NULL);
    int32_t rc = jls_raw_wr_header(r, h);
    VG_REACH(wr_header_returns);
    if (r->backend.fend > r->offset + 100) { VG_REACH(wr_header_in_place); } else { VG_REACH(wr_header_append); }
}

void h_raw_rd_header(void) {
    struct jls_raw_s * r = vg_mk_raw();
    struct jls_chunk_header_s * h = malloc(sizeof(*h));
    _Bool with_hdr;
    if (!with_hdr) { h = NULL; }
    int32_t rc = jls_raw_rd_header(r, h);
    VG_REACH(rd_header_returns);
    if (rc == 0 && r->backend.fpos == r->offset + 32) { VG_REACH(rd_header_fresh_ok); }
    if (rc == JLS_ERROR_MESSAGE_INTEGRITY) { VG_REACH(rd_header_crc_error); }
    if (rc == 0 && r->backend.fpos != r->offset + 32) { VG_REACH(rd_header_cached); }
}

void h_raw_rd_payload(void) {
    struct jls_raw_s * r = vg_mk_raw();
    uint32_t max;
    uint8_t * p = malloc(max);
    __CPROVER_assume(max == 0 || p != NULL);
    int32_t rc = jls_raw_rd_payload(r, max, p);
    VG_REACH(rd_payload_returns);
    if (rc == 0 && max > 40) { VG_REACH(rd_payload_ok); }
    if (rc == JLS_ERROR_TOO_BIG) { VG_REACH(rd_payload_too_big); }
    if (rc == JLS_ERROR_MESSAGE_INTEGRITY) { VG_REACH(rd_payload_crc_error); }
}

void h_raw_chunk_seek(void) {
    struct jls_raw_s * r = vg_mk_raw();
    int64_t off;
    int32_t rc = jls_raw_chunk_seek(r, off);
    VG_REACH(chunk_seek_returns);
    if (rc) { VG_REACH(chunk_seek_refused); }
}

void h_raw_wr(void) {
    struct jls_raw_s * r = vg_mk_raw();
    struct jls_chunk_header_s * h = malloc(sizeof(*h));
    __CPROVER_assume(h != NULL);
    uint32_t n = h->payload_length;
    uint8_t * p = malloc(n);
    __CPROVER_assume(n == 0 || p != NULL);
    int32_t rc = jls_raw_wr(r, h, p);
    VG_REACH(raw_wr_returns);
    if (n > 9 && r->backend.fend == r->offset) { VG_REACH(raw_wr_append); }
    if (n == 0) { VG_REACH(raw_wr_no_payload); }
}

void h_raw_chunk_next(void) { struct jls_raw_s * r = vg_mk_raw(); int32_t rc = jls_raw_chunk_next(r); VG_REACH(chunk_next_returns); if (rc == 0) { VG_REACH(chunk_next_ok); } else { VG_REACH(chunk_next_end); } }
void h_raw_chunk_prev(void) { struct jls_raw_s * r = vg_mk_raw(); int32_t rc = jls_raw_chunk_prev(r); VG_REACH(chunk_prev_returns); if (rc == 0) { VG_REACH(chunk_prev_ok); } }
void h_raw_item_next(void) { struct jls_raw_s * r = vg_mk_raw(); int32_t rc = jls_raw_item_next(r); VG_REACH(item_next_returns); if (rc == 0) { VG_REACH(item_next_ok); } }
void h_raw_item_prev(void) { struct jls_raw_s * r = vg_mk_raw(); int32_t rc = jls_raw_item_prev(r); VG_REACH(item_prev_returns); if (rc == 0) { VG_REACH(item_prev_ok); } }
void h_raw_wr_filehdr(void) { struct jls_raw_s * r = vg_mk_raw(); int32_t rc = wr_file_header(r); VG_REACH(wr_filehdr_returns); }
void h_raw_rd_filehdr(void) {
    struct jls_raw_s * r = vg_mk_raw();
    struct jls_file_header_s * h = malloc(sizeof(*h)); __CPROVER_assume(h != NULL);
    int32_t rc = rd_file_header(r, h);
    VG_REACH(rd_filehdr_returns);
    if (rc == 0) { VG_REACH(rd_filehdr_accepted); } else { VG_REACH(rd_filehdr_rejected); }
}
