/* definitions of the ghost state declared in specs/raw/pre.h (included once per verification binary) */
uint32_t vg_k, vg_k2;
