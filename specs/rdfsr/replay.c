/* native replay for the jls_core_fsr read-window units: the counterexample (first sample id, signal length, window) is run end to end
 * through the real writer and reader.  The bounded units use small storage blocks; the real writer's smallest block is 32 bytes, so
 * positions are mapped block by block keeping their distance to the nearest block boundary and their bit alignment, one full block is
 * put in front (signals shorter than one summary entry are the separate known finding F23), and the whole window is compared. */
#include "vg_native.h"
#include "jls/writer.h"
#include "jls/reader.h"
#include "jls/format.h"
#include <unistd.h>
#ifndef VG_BITS
#define VG_BITS 1
#endif
#ifndef VG_DT
#define VG_DT JLS_DATATYPE_U1
#endif
#ifndef VG_CHUNK_BYTES
#define VG_CHUNK_BYTES 2
#endif

static unsigned bits_at(const uint8_t * b, int64_t n) {
    unsigned v = 0;
    for (int k = 0; k < VG_BITS; ++k) { int64_t bit = n * VG_BITS + k; v |= ((b[bit / 8] >> (bit % 8)) & 1u) << (k & 31); if (k >= 31) break; }
    return v;
}
static int64_t spd_m, spd_r;
static int64_t map_pos(int64_t x) {
    if (x < 0) return x;
    int64_t c = x / spd_m, r = x % spd_m;
    return (r <= spd_m / 2) ? (c + 1) * spd_r + r : (c + 2) * spd_r - (spd_m - r);
}

static int run_case(int64_t off, int64_t total, int64_t start, int64_t len) {
    char path[] = "/tmp/vg_replay_XXXXXX";
    int fd = mkstemp(path); close(fd);
    struct jls_wr_s * wr;
    if (jls_wr_open(&wr, path)) { unlink(path); return 0; }
    struct jls_source_def_s src = {.source_id = 1, .name = "s", .vendor = "v", .model = "m", .version = "1", .serial_number = "1"};
    jls_wr_source_def(wr, &src);
    struct jls_signal_def_s sig = {.signal_id = 5, .source_id = 1, .signal_type = JLS_SIGNAL_TYPE_FSR, .data_type = VG_DT, .sample_rate = 1000,
        .samples_per_data = (uint32_t) spd_r, .sample_decimate_factor = (uint32_t) spd_r, .entries_per_summary = 64, .summary_decimate_factor = 4, .name = "x", .units = "u"};
    if (jls_wr_signal_def(wr, &sig)) { jls_wr_close(wr); unlink(path); return 0; }
    size_t nbytes = (size_t) ((total * VG_BITS + 7) / 8);
    uint8_t * data = calloc(nbytes + 16, 1);
    srand(12345);
    for (size_t i = 0; i < nbytes; ++i) { data[i] = (uint8_t) rand(); }
    if ((total * VG_BITS) % 8) { data[nbytes - 1] &= (uint8_t) ((1u << ((total * VG_BITS) % 8)) - 1u); }
    printf("replay: type bits=%d first id=%lld samples=%lld window start=%lld len=%lld\n", VG_BITS, (long long) off, (long long) total, (long long) start, (long long) len);
    fflush(stdout);
    int32_t rc = jls_wr_fsr(wr, 5, off, data, (uint32_t) total);
    if (rc) { printf("write rc=%d\n", rc); jls_wr_close(wr); unlink(path); free(data); return 0; }
    jls_wr_close(wr);
    struct jls_rd_s * rd;
    if (jls_rd_open(&rd, path)) { unlink(path); free(data); VG_FAIL("the closed file does not open"); }
    struct jls_signal_def_s rsig;
    if (0 == jls_rd_signal(rd, 5, &rsig) && rsig.samples_per_data != (uint32_t) spd_r) {
        printf("note: writer chose samples_per_data=%u\n", rsig.samples_per_data);
    }
    int64_t n = -1;
    jls_rd_fsr_length(rd, 5, &n);
    VG_CHECK(n == total, "length %lld reported for %lld written samples", (long long) n, (long long) total);
    int valid = (len <= 0) || (start >= 0 && start + len <= total);
    size_t out_sz = (len > 0 && len <= total) ? (size_t) ((len * VG_BITS + 7) / 8) : 1;
    uint8_t * out = malloc(out_sz);     /* exactly sized: ASan reports any write past the documented size */
    rc = jls_rd_fsr(rd, 5, start, out, len);
    printf("jls_rd_fsr rc=%d\n", rc);
    if (len > 0 && !valid) { VG_CHECK(rc != 0, "a window outside the signal was accepted"); }
    if (len > 0 && valid) {
        VG_CHECK(rc == 0, "a window inside the signal fails with rc=%d", rc);
        for (int64_t i = 0; i < len; ++i) {
            VG_CHECK(bits_at(out, i) == bits_at(data, start + i), "sample %lld of the window reads %u, written %u", (long long) i, bits_at(out, i), bits_at(data, start + i));
        }
    }
    free(out); free(data);
    jls_rd_close(rd);
    unlink(path);
    return 0;
}

static int r_core_fsr(void) {
    int64_t total = (int64_t) vg_in_u64("total", 40), off = (int64_t) vg_in_u64("off", 0);
    int64_t start = (int64_t) vg_in_u64("start", 1), len = (int64_t) vg_in_u64("len", 20);
    spd_m = (VG_CHUNK_BYTES * 8) / VG_BITS; spd_r = (32 * 8) / VG_BITS;
    if (total <= 0 || total > 100000) { printf("replay: nothing to write\n"); return 0; }
    if (len > 0 && start >= 0 && start + len <= total) {
        run_case(off, map_pos(total), map_pos(start), map_pos(start + len) - map_pos(start));
    } else {
        run_case(off, map_pos(total), (start >= 0 && start <= total) ? map_pos(start) : start, len);
    }
    return 0;
}

int main(void) { return VG_REPLAY_ENTRY(); }
