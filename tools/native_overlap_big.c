#include "jls.h"
#include "jls/writer.h"
#include "jls/reader.h"
#include <string.h>
#include <stdio.h>
#include <stdlib.h>
#include <unistd.h>
int main(void){ const char*path="/tmp/p1/oob.jls"; unlink(path);
  struct jls_wr_s*wr; if(jls_wr_open(&wr,path)) return 2;
  struct jls_source_def_s src={.source_id=1,.name="s",.vendor="v",.model="m",.version="1",.serial_number="1"}; jls_wr_source_def(wr,&src);
  struct jls_signal_def_s sig={.signal_id=5,.source_id=1,.signal_type=JLS_SIGNAL_TYPE_FSR,.data_type=JLS_DATATYPE_U1,.sample_rate=1000,.name="x",.units="u"};
  if(jls_wr_signal_def(wr,&sig)) return 2;
  size_t n=8*33000; uint8_t*d=calloc(n/8+8,1); for(size_t i=0;i<n/8;i++) d[i]=rand();
  printf("rc=%d\n", jls_wr_fsr(wr,5,0,d,100));
  printf("rc=%d\n", jls_wr_fsr(wr,5,3,d,(uint32_t)n));
  jls_wr_close(wr);
  struct jls_rd_s*rd; if(jls_rd_open(&rd,path)) return 2; int64_t len=0; jls_rd_fsr_length(rd,5,&len); printf("len=%ld expect %ld\n",(long)len,(long)(n+3));
  uint8_t*o=calloc(len/8+8,1); int rc=jls_rd_fsr(rd,5,0,o,len); long bad=0;
  for(long k=0;k<len;k++){ int e = k<100 ? (d[k/8]>>(k%8))&1 : (d[(k-3)/8]>>((k-3)%8))&1; int g=(o[k/8]>>(k%8))&1; if(e!=g){ if(bad<3)printf("mismatch at %ld\n",k); bad++; } }
  printf("rd rc=%d bad=%ld\n",rc,bad); jls_rd_close(rd); return bad||rc||len!=(long)(n+3); }
