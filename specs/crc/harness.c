/* harnesses for the CRC units -- included at the end of the dispatcher src/crc32c.c */
#include "vg.h"
#include "jls/format.h"
#include <stdlib.h>
const uint8_t * vg_crc_arg;
uint32_t vg_crc_len;
uint32_t vg_crc_ret;
uint32_t vg_sw_ret;

#ifdef VG_SSE4
/* A-ISA: semantics of the SSE4.2 CRC32 instruction (Intel SDM): accumulate 1/4/8 little-endian bytes of CRC-32C */
unsigned int __builtin_ia32_crc32qi(unsigned int c, unsigned char b) { return vg_spec_byte(c, b); }
unsigned int __builtin_ia32_crc32si(unsigned int c, unsigned int v) {
    c = vg_spec_byte(c, (uint8_t) (v & 0xff)); c = vg_spec_byte(c, (uint8_t) ((v >> 8) & 0xff));
    c = vg_spec_byte(c, (uint8_t) ((v >> 16) & 0xff)); c = vg_spec_byte(c, (uint8_t) ((v >> 24) & 0xff));
    return c;
}
unsigned long long __builtin_ia32_crc32di(unsigned long long c64, unsigned long long v) {
    unsigned int c = (unsigned int) (c64 & 0xffffffffu);
    c = vg_spec_byte(c, (uint8_t) (v & 0xff)); c = vg_spec_byte(c, (uint8_t) ((v >> 8) & 0xff));
    c = vg_spec_byte(c, (uint8_t) ((v >> 16) & 0xff)); c = vg_spec_byte(c, (uint8_t) ((v >> 24) & 0xff));
    c = vg_spec_byte(c, (uint8_t) ((v >> 32) & 0xff)); c = vg_spec_byte(c, (uint8_t) ((v >> 40) & 0xff));
    c = vg_spec_byte(c, (uint8_t) ((v >> 48) & 0xff)); c = vg_spec_byte(c, (uint8_t) ((v >> 56) & 0xff));
    return c;
}
#endif

/* every length 0..2^24, every one of the 8 start alignments */
void h_crc_gen(void) {
    uint32_t length, a;
    __CPROVER_assume(a < 8 && length <= VG_CRC_MAXLEN);
    uint8_t * base = malloc((size_t) length + a);
    __CPROVER_assume(base != NULL);
    uint32_t r = jls_crc32c(base + a, length);
    VG_REACH(crc_gen_returns);
    if (length > 40 && a == 3) { VG_REACH(crc_gen_long_unaligned); }
}

void h_crc_hdr(void) {
    struct jls_chunk_header_s * hdr = malloc(sizeof(*hdr));
    __CPROVER_assume(hdr != NULL);
    uint32_t r = jls_crc32c_hdr(hdr);
    VG_REACH(crc_hdr_returns);
}

#ifdef VG_SW
void h_crc_sw_bytes(void) {
    uint32_t length, a, c0;
    __CPROVER_assume(a < 8 && length <= 7);
    uint8_t * base = malloc((size_t) length + a);
    __CPROVER_assume(base != NULL);
    uint32_t r = crc32cSlicingBy8(c0, base + a, length);
    VG_REACH(crc_sw_bytes_returns);
    if (length == 7 && a == 1) { VG_REACH(crc_sw_bytes_head_and_tail); }
}
/* U-crc-sw-tab: every entry of the eight tables against the generator (table k, entry i = effect of byte i followed by k zero bytes) */
void h_crc_sw_tab(void) {
    uint8_t i;
    uint32_t t0 = vg_spec_byte(0, i);
    __CPROVER_assert(crc_tableil8_o32[i] == t0, "C18: table o32[i] == 8 bit-serial steps of i");
    uint32_t c = crc_tableil8_o32[i];
    c = crc_tableil8_o32[c & 0xff] ^ (c >> 8); __CPROVER_assert(crc_tableil8_o40[i] == c, "C18: table o40 recurrence");
    c = crc_tableil8_o32[c & 0xff] ^ (c >> 8); __CPROVER_assert(crc_tableil8_o48[i] == c, "C18: table o48 recurrence");
    c = crc_tableil8_o32[c & 0xff] ^ (c >> 8); __CPROVER_assert(crc_tableil8_o56[i] == c, "C18: table o56 recurrence");
    c = crc_tableil8_o32[c & 0xff] ^ (c >> 8); __CPROVER_assert(crc_tableil8_o64[i] == c, "C18: table o64 recurrence");
    c = crc_tableil8_o32[c & 0xff] ^ (c >> 8); __CPROVER_assert(crc_tableil8_o72[i] == c, "C18: table o72 recurrence");
    c = crc_tableil8_o32[c & 0xff] ^ (c >> 8); __CPROVER_assert(crc_tableil8_o80[i] == c, "C18: table o80 recurrence");
    c = crc_tableil8_o32[c & 0xff] ^ (c >> 8); __CPROVER_assert(crc_tableil8_o88[i] == c, "C18: table o88 recurrence");
    VG_REACH(crc_sw_tab);
}
/* U-crc-sw-byte: the table byte step equals the bit-serial byte step for every state and byte (2^40 cases) */
void h_crc_sw_byte(void) {
    uint32_t c; uint8_t b;
    __CPROVER_assert((crc_tableil8_o32[(c ^ b) & 0xff] ^ (c >> 8)) == vg_spec_byte(c, b), "C18: table-driven byte step == bit-serial byte step");
    VG_REACH(crc_sw_byte);
}
/* U-crc-sw-slice: one 8-byte slicing iteration equals 8 bit-serial byte steps (via the real function on an aligned 8-byte buffer) */
void h_crc_sw_slice(void) {
    uint64_t w; uint32_t c0;
    uint32_t r = crc32cSlicingBy8(c0, &w, 8);
    const uint8_t * p = (const uint8_t *) &w;
    uint32_t s = vg_spec_4(vg_spec_4(c0, p), p + 4);
    __CPROVER_assert(r == s, "C18: one slicing-by-8 iteration == 8 bit-serial byte steps");
    VG_REACH(crc_sw_slice);
}
/* U-crc-sw-short: the real jls_crc32c / jls_crc32c_hdr of the table build on short buffers (every length 0..VG_SW_LEN, 4 alignments) */
#ifndef VG_SW_LEN
#define VG_SW_LEN 12
#endif
void h_crc_sw_short(void) {
    uint8_t buf[VG_SW_LEN + 8] __attribute__((aligned(8)));
    uint32_t n, a;
    __CPROVER_assume(a < 4 && n <= VG_SW_LEN);
    uint32_t r = jls_crc32c(buf + a, n);
    uint32_t s = 0xFFFFFFFFu;
    for (uint32_t k = 0; k < VG_SW_LEN; ++k) { if (k < n) { s = vg_spec_byte(s, buf[a + k]); } }
    __CPROVER_assert(r == (s ^ 0xFFFFFFFFu), "C18 bounded: table-driven jls_crc32c == reference on short buffers");
    VG_REACH(crc_sw_short);
}
#endif
