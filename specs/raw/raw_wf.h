/* representation invariant of the raw layer (needs the definition of struct jls_raw_s in scope) */
#ifndef VG_RAW_WF_H
#define VG_RAW_WF_H
/* representation invariant of the raw layer: sane offsets; a cached (valid) chunk header has a verified CRC */
#define VG_RAW_WF(s) VG_RAW_WFM(s, VG_FILE_MAX)           /* what the layers above establish */
#define VG_RAW_WF2(s) VG_RAW_WFM(s, 2 * VG_FILE_MAX)      /* what the primitives accept (positions may have advanced by a chunk) */
#define VG_RAW_WF4(s) VG_RAW_WFM(s, 4 * VG_FILE_MAX)      /* what the primitives guarantee */
#define VG_RAW_WFM(s, max) ( VG_FILE_WF && (s)->backend.fpos >= 0 && (s)->backend.fpos <= (max) && (s)->backend.fend >= 0 && (s)->backend.fend <= (max) \
    && (s)->offset >= 0 && (s)->offset <= (max) \
    && ((s)->hdr.tag == JLS_TAG_INVALID || (s)->hdr.crc32 == vg_hcrc_of(&(s)->hdr)) )
#endif
